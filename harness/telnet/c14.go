//go:build verif

package telnet

import (
	"io"
	"net"
	"strings"
	"time"
)

// verifAdminConn: an admin connection that delivers the harness's reads one at a time, then EOF.
type verifAdminConn struct {
	reads   [][]byte
	written []byte
	closed  bool
}

func (c *verifAdminConn) Read(p []byte) (int, error) {
	if len(c.reads) == 0 {
		return 0, io.EOF
	}
	n := copy(p, c.reads[0])
	c.reads = c.reads[1:]
	return n, nil
}
func (c *verifAdminConn) Write(p []byte) (int, error)        { c.written = append(c.written, p...); return len(p), nil }
func (c *verifAdminConn) Close() error                       { c.closed = true; return nil }
func (c *verifAdminConn) LocalAddr() net.Addr                { return nil }
func (c *verifAdminConn) RemoteAddr() net.Addr               { return nil }
func (c *verifAdminConn) SetDeadline(t time.Time) error      { return nil }
func (c *verifAdminConn) SetReadDeadline(t time.Time) error  { return nil }
func (c *verifAdminConn) SetWriteDeadline(t time.Time) error { return nil }

// VerifC14AdminConn: the admin port's connection handler (handleApiRequest) on arbitrary bytes: one read of
// 0..3 arbitrary ASCII bytes, or one read that fills the whole 1024-byte buffer (first and last byte free),
// optionally followed by the concrete command "view", then end of stream. It never
// panics; every read is answered; a command is handed to the handler registered for its prefix with exactly the
// trimmed text split at single blanks, anything else is answered "unrecognized command"; the connection is closed
// at the end of the stream.
func VerifC14AdminConn() {
	muxList = nil
	var got [][]string
	HandleFunc("add", func(req Req) error { got = append(got, req.Command); return nil })
	HandleFunc("view", func(req Req) error { got = append(got, req.Command); return io.ErrUnexpectedEOF })
	c := &verifAdminConn{}
	var b []byte
	if verifChoice("full-buffer", 2) == 1 {
		b = make([]byte, 1024)
		for j := range b {
			b[j] = 'a'
		}
		b[0], b[1023] = verifByte("first"), verifByte("last")
	} else {
		b = verifBytes("cmd", verifChoice("len", 4))
	}
	for _, x := range b {
		verifAssume(x < 0x80)
	}
	c.reads = append(c.reads, b)
	second := verifBool("then-view")
	if second {
		c.reads = append(c.reads, []byte("view\n"))
	}
	handleApiRequest(c)
	verifAssert(c.closed, "connection-closed-at-end-of-stream")
	// independent oracle for "the trimmed text starts with a registered prefix": skip leading white space by hand
	i := 0
	for i < len(b) && (b[i] == ' ' || b[i] == '\t' || b[i] == '\n' || b[i] == '\r' || b[i] == '\v' || b[i] == '\f') {
		i++
	}
	rest := string(b[i:])
	want := 0
	if strings.HasPrefix(rest, "add") || strings.HasPrefix(rest, "view") {
		want++
	}
	if second {
		want++
	}
	verifAssert(len(got) == want, "command-handed-to-the-handler-of-its-prefix-exactly-once")
	verifCover("end")
}
