//go:build verif

package destination

import (
	"bytes"
	"strings"
	"time"
)

// verifTagged: line i = tag byte + one symbolic byte (so every line is identifiable in the endpoint logs)
func verifTagged(i int) []byte {
	b := verifByte("payload")
	verifAssume(b != '\n' && (b < 'A' || b > 'Z'))
	if verifLongLines {
		// longer than a whole spool segment file (12 bytes in these scenarios): the disk queue stores such a record
		// in a segment of its own
		return append([]byte{byte('A' + i), b}, []byte("xxxxxxxxxxxxx")...)
	}
	return []byte{byte('A' + i), b}
}

// verifLongLines: lines handed off from now on are longer than the spool's segment size
var verifLongLines = false

func verifHandOff(d *Destination, lines *[][]byte, n int) {
	for i := 0; i < n; i++ {
		l := verifTagged(len(*lines))
		*lines = append(*lines, l)
		d.In <- l
		verifSettle()
	}
}

func verifReconnect(d *Destination) {
	// a few reconnect ticks: the first makes relay start updateConn, later ones rotate the slow flags
	for i := 0; i < 3; i++ {
		verifTick(verifReconnTicker())
		verifSettle()
	}
	if !verifIsSymbolic() {
		time.Sleep(200 * time.Millisecond)
	}
}

// VerifC07Outage: spooling on; lines handed off before the first connect, while connected, during an
// outage and after recovery. Once the endpoint is back and everything has settled, every line was received
// by some incarnation of the endpoint (duplicates allowed) except at most as many as were counted in the
// slow_conn / slow_spool drop counters; nothing is counted as conn_down_no_spool.
func VerifC07Outage() {
	// param "connbuf": size of the connection queue (1: a stalled endpoint fills it with the lines of one phase)
	d := verifNewDest(true, verifParamInt("connbuf", 4), 4)
	startUp := verifBool("endpoint-up-at-start")
	verifEndpointUp(startUp)
	d.Run()
	verifSettle()
	var lines [][]byte
	maxl := verifParamInt("maxlines", 2) // most lines per phase (0..maxl while connected / during the outage)
	verifHandOff(d, &lines, verifChoice("n-before", 2))
	if !startUp {
		verifEndpointUp(true)
		verifReconnect(d)
	}
	// param "outages": the whole outage / recovery cycle may repeat; param "rotate": keepSafe's expiry ticker may
	// fire (once) while connected, between the lines and the outage
	outages := verifParamInt("outages", 1)
	for o := 0; o < outages; o++ {
		// the endpoint may stop reading while still connected: the connection writer then blocks inside a
		// socket write, and the outage surfaces as a write error for the very line it holds
		stalled := verifBool("endpoint-stops-reading-before-outage")
		if verifParam("stalled") == "1" { // restrict the scenario: the endpoint always stops reading first
			verifAssume(stalled)
		}
		if stalled {
			for k := 0; k < verifNumConns(); k++ {
				verifEndpointStall(k, true)
			}
		}
		nconn := verifChoice("n-connected", 1+maxl)
		if verifParam("stalled") == "1" {
			verifAssume(nconn == maxl) // ... and enough lines follow to fill the connection's queue
		}
		verifHandOff(d, &lines, nconn)
		if verifParam("rotate") == "1" && verifBool("keepsafe-expiry-tick") {
			for i := 0; i < verifNumTickers(); i++ {
				if strings.Contains(verifTickerName(i), "keepsafe.go") {
					verifTick(i)
				}
			}
			verifSettle()
			verifHandOff(d, &lines, verifChoice("n-after-rotation", 2))
		}
		if !stalled && verifBool("flush-before-outage") {
			verifFlushConns()
		}
		// outage: the peer closes the connection (checkEOF sees EOF), the endpoint refuses new connections
		verifEndpointUp(false)
		for k := 0; k < verifNumConns(); k++ {
			verifEndpointClose(k)
		}
		verifSettle()
		verifLongLines = verifParam("long-lines-during-outage") == "1"
		verifHandOff(d, &lines, verifChoice("n-during-outage", 1+maxl))
		verifLongLines = false
		// recovery
		verifEndpointUp(true)
		verifReconnect(d)
		verifHandOff(d, &lines, verifChoice("n-after", 2))
	}
	verifReconnect(d)
	verifFlushConns()
	verifSettle()

	var all []byte
	for k := 0; k < verifNumConns(); k++ {
		all = append(all, '\n')
		all = append(all, verifEndpointLog(k)...)
	}
	missing := 0
	for _, l := range lines {
		pat := append(append([]byte{'\n'}, l...), '\n')
		if !bytes.Contains(all, pat) {
			missing++
		}
	}
	counted := int(d.numDropSlowConn.Count() + d.numDropSlowSpool.Count())
	verifAssert(missing <= counted, "every-line-received-or-counted")
	verifAssert(d.numDropNoConnNoSpool.Count() == 0, "spooling-never-counts-conn-down-drops")
	if verifIsSymbolic() {
		// the relay loop hands work that waits (replaying the redo buffer into the spool sleeps between lines) to
		// other goroutines: it never sleeps itself, or every hand-off would wait with it
		verifAssert(verifSleepsUnder("Destination).relay") == 0, "structural/relay-loop-never-sleeps")
	}
	verifCover("end")
}

// VerifC07KeepSafe: any history of Add and expiry ticks: GetAll returns, in order, every line added since
// the second-to-last tick, empties both generations, and the returned slice is not aliased by later Adds.
func VerifC07KeepSafe() {
	k := NewKeepSafe(2, keepsafe_keep_duration)
	verifSettle()
	tk := verifTickerIdx("keepsafe.go")
	var old, recent [][]byte
	n := 1 + verifChoice("nevents", 5)
	for i := 0; i < n; i++ {
		if verifBool("tick") {
			if verifIsSymbolic() {
				verifTick(tk)
				verifSettle()
				old = recent
				recent = nil
			}
		} else {
			l := verifBytes("line", 1)
			k.Add(l)
			recent = append(recent, l)
		}
	}
	want := append(append([][]byte{}, old...), recent...)
	got := k.GetAll()
	verifAssert(len(got) == len(want), "getall-count")
	if len(got) == len(want) {
		var g, w []byte
		for i := range got {
			g = append(g, got[i]...)
			w = append(w, want[i]...)
		}
		verifAssert(string(g) == string(w), "getall-content-in-order")
	}
	before := len(got)
	k.Add([]byte("z"))
	verifAssert(len(got) == before, "returned-slice-not-extended")
	for i := range got {
		verifAssert(len(got[i]) == 1, "returned-lines-intact")
	}
	again := k.GetAll()
	verifAssert(len(again) == 1, "getall-emptied-both-generations")
	verifCover("end")
}

