//go:build verif

package destination

import "time"

// VerifDestFieldsT carries every configuration field of a Destination, including the unexported ones,
// for the C20 harnesses in packages imperatives and cfg (overlaid there via -hdir2 / extra_overlays).
type VerifDestFieldsT struct {
	Prefix, NotPrefix, Sub, NotSub, Regex, NotRegex string
	Addr, Instance, SpoolDir, Key, RouteName        string
	Spool, Pickle                                   bool
	PeriodFlush, PeriodReConn                       time.Duration
	ConnBufSize, IoBufSize, SpoolBufSize            int
	SpoolMaxBytesPerFile, SpoolSyncEvery            int64
	SpoolSyncPeriod, SpoolSleep, UnspoolSleep       time.Duration
}

func VerifDestFields(d *Destination) VerifDestFieldsT {
	m := d.GetMatcher()
	return VerifDestFieldsT{
		Prefix: m.Prefix, NotPrefix: m.NotPrefix, Sub: m.Sub, NotSub: m.NotSub, Regex: m.Regex, NotRegex: m.NotRegex,
		Addr: d.Addr, Instance: d.Instance, SpoolDir: d.SpoolDir, Key: d.Key, RouteName: d.RouteName,
		Spool: d.Spool, Pickle: d.Pickle,
		PeriodFlush: d.periodFlush, PeriodReConn: d.periodReConn,
		ConnBufSize: d.connBufSize, IoBufSize: d.ioBufSize, SpoolBufSize: d.SpoolBufSize,
		SpoolMaxBytesPerFile: d.SpoolMaxBytesPerFile, SpoolSyncEvery: d.SpoolSyncEvery,
		SpoolSyncPeriod: d.SpoolSyncPeriod, SpoolSleep: d.SpoolSleep, UnspoolSleep: d.UnspoolSleep,
	}
}
