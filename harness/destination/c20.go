//go:build verif

package destination

import (
	"strings"
	"time"
)

// VerifDestFieldsT carries every configuration field of a Destination, including the unexported ones,
// for the C20 harnesses in packages imperatives and cfg (overlaid there via -hdir2 / extra_overlays).
type VerifDestFieldsT struct {
	Prefix, NotPrefix, Sub, NotSub, Regex, NotRegex string
	Addr, Instance, SpoolDir, Key, RouteName        string
	Spool, Pickle                                   bool
	PeriodFlush, PeriodReConn                       time.Duration
	ConnBufSize, IoBufSize, SpoolBufSize            int
	SpoolMaxBytesPerFile, SpoolSyncEvery            int64
	SpoolSyncPeriod, SpoolSleep, UnspoolSleep       time.Duration
}

func VerifDestFields(d *Destination) VerifDestFieldsT {
	m := d.GetMatcher()
	return VerifDestFieldsT{
		Prefix: m.Prefix, NotPrefix: m.NotPrefix, Sub: m.Sub, NotSub: m.NotSub, Regex: m.Regex, NotRegex: m.NotRegex,
		Addr: d.Addr, Instance: d.Instance, SpoolDir: d.SpoolDir, Key: d.Key, RouteName: d.RouteName,
		Spool: d.Spool, Pickle: d.Pickle,
		PeriodFlush: d.periodFlush, PeriodReConn: d.periodReConn,
		ConnBufSize: d.connBufSize, IoBufSize: d.ioBufSize, SpoolBufSize: d.SpoolBufSize,
		SpoolMaxBytesPerFile: d.SpoolMaxBytesPerFile, SpoolSyncEvery: d.SpoolSyncEvery,
		SpoolSyncPeriod: d.SpoolSyncPeriod, SpoolSleep: d.SpoolSleep, UnspoolSleep: d.UnspoolSleep,
	}
}

// ---- the specification table (transcribed from docs/config.md "carbon destination" and
// docs/tcp-admin-interface.md "addRoute ... <dest> <opts>"); shared by the imperatives and cfg harnesses.

// VerifC20DestDefaults: a destination given only its address.
func VerifC20DestDefaults(routeKey, addr, spoolDir string) VerifDestFieldsT {
	w := VerifDestFieldsT{
		PeriodFlush:          1000 * time.Millisecond,  // flush: int (ms), default 1000
		PeriodReConn:         10000 * time.Millisecond, // reconn: int (ms), default 10k
		Pickle:               false,
		Spool:                false,
		ConnBufSize:          30000,             // 30k
		IoBufSize:            2000000,           // int (bytes), 2M
		SpoolBufSize:         10000,             // 10k
		SpoolMaxBytesPerFile: 200 * 1024 * 1024, // 200MiB
		SpoolSyncEvery:       10000,             // 10k
		SpoolSyncPeriod:      1000 * time.Millisecond, // int (ms), 1000
		SpoolSleep:           500 * time.Microsecond,  // int (micros), 500
		UnspoolSleep:         10 * time.Microsecond,   // int (micros), 10
		SpoolDir:             spoolDir,
		RouteName:            routeKey,
	}
	// addr is host:port, or host:port:instance for consistent hashing
	parts := strings.Split(addr, ":")
	if len(parts) == 3 {
		w.Addr, w.Instance = parts[0]+":"+parts[1], parts[2]
	} else {
		w.Addr = addr
	}
	// "unique key per destination, based on routeName and destination addr/port combination"
	w.Key = routeKey + "_" + strings.NewReplacer(".", "_", ":", "_", "/", "").Replace(addr)
	return w
}

// VerifC20DestSet: the documented meaning of one option occurrence (s / n / b = its string, int, bool value).
func VerifC20DestSet(w *VerifDestFieldsT, opt string, s string, n int, b bool) {
	switch opt {
	case "prefix":
		w.Prefix = s
	case "notPrefix":
		w.NotPrefix = s
	case "sub":
		w.Sub = s
	case "notSub":
		w.NotSub = s
	case "regex":
		w.Regex = s
	case "notRegex":
		w.NotRegex = s
	case "flush":
		w.PeriodFlush = time.Duration(n) * time.Millisecond
	case "reconn":
		w.PeriodReConn = time.Duration(n) * time.Millisecond
	case "pickle":
		w.Pickle = b
	case "spool":
		w.Spool = b
	case "connbuf":
		w.ConnBufSize = n
	case "iobuf":
		w.IoBufSize = n
	case "spoolbuf":
		w.SpoolBufSize = n
	case "spoolmaxbytesperfile":
		w.SpoolMaxBytesPerFile = int64(n)
	case "spoolsyncevery":
		w.SpoolSyncEvery = int64(n)
	case "spoolsyncperiod":
		w.SpoolSyncPeriod = time.Duration(n) * time.Millisecond
	case "spoolsleep":
		w.SpoolSleep = time.Duration(n) * time.Microsecond
	case "unspoolsleep":
		w.UnspoolSleep = time.Duration(n) * time.Microsecond
	default:
		panic("unknown option " + opt)
	}
}
