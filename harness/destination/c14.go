//go:build verif

package destination

import (
	"time"

	"github.com/grafana/carbon-relay-ng/matcher"
)

// VerifC14DestParams: whatever numeric options a destination is configured with (flush / reconnect
// periods, connbuf, iobuf, spool buffer and sync settings; zero and negative included), it is either
// rejected with an error by destination.New or works: running it against a reachable endpoint and
// handing it a line never panics.
func VerifC14DestParams() {
	keepsafe_initial_cap = 4
	m, _ := matcher.New("", "", "", "", "", "")
	ms := func(name string) time.Duration { return time.Duration(int64(int16(verifUint16(name)))) * time.Millisecond }
	num := func(name string) int { return int(int16(verifUint16(name))) }
	spool := verifBool("spool")
	// one option is free at a time (the others keep working values), chosen by the solver
	flush, reconn, syncPeriod := time.Second, time.Second, time.Second
	connBuf, ioBuf, spoolBuf := 2, 8, 2
	var maxBytes, syncEvery int64 = 1000, 10
	switch verifChoice("which", 8) {
	case 0:
		flush = ms("flush")
	case 1:
		reconn = ms("reconn")
	case 2:
		connBuf = num("connbuf")
	case 3:
		ioBuf = num("iobuf")
	case 4:
		spoolBuf = num("spoolbuf")
	case 5:
		syncPeriod = ms("spoolsyncperiod")
	case 6:
		maxBytes = int64(num("spoolmaxbytesperfile"))
	case 7:
		syncEvery = int64(num("spoolsyncevery"))
	}
	// sizes are bounded above only to keep allocations small
	verifAssume(connBuf <= 4 && ioBuf <= 16 && spoolBuf <= 4)
	d, err := New("route", m, "127.0.0.1:2003", "/spool", spool, verifBool("pickle"), flush, reconn, connBuf, ioBuf, spoolBuf, maxBytes, syncEvery, syncPeriod, time.Millisecond, time.Millisecond)
	if err != nil {
		verifCover("rejected")
		return
	}
	verifEndpointUp(true)
	d.Run()
	verifSettle()
	d.In <- []byte("a.b 1 1500000000")
	verifSettle()
	d.In <- []byte("a.b 2 1500000001")
	verifSettle()
	verifCover("end")
}

// VerifC18DestUpdate: one runtime change of a destination (modDest / Table.UpdateDestination -> Destination.Update)
// carrying any subset of the options addr, prefix, sub, regex is applied completely: afterwards the destination
// has every option of the change (and keeps the others), whatever the combination.
func VerifC18DestUpdate() {
	verifEndpointUp(true)
	m0, _ := matcher.New("", "", "", "", "", "")
	period := time.Second
	if !verifIsSymbolic() {
		period = 20 * time.Millisecond
	}
	// configured at an address nobody listens on (natively: connection refused), so that a change of address shows
	d, err0 := New("route", m0, "127.0.0.1:1", "/spool", false, false, period, period, 2, 4, 4, 12, 10, time.Hour, time.Millisecond, time.Millisecond)
	if err0 != nil {
		panic(err0)
	}
	d.Run()
	verifSettle()
	opts := map[string]string{}
	want := d.GetMatcher()
	wantPrefix, wantSub, wantRegex := want.Prefix, want.Sub, want.Regex
	wantAddr := d.Addr
	if verifBool("addr") {
		opts["addr"] = verifEndpointAddr()
		wantAddr = verifEndpointAddr()
	}
	if verifBool("prefix") {
		opts["prefix"] = "pp."
		wantPrefix = "pp."
	}
	if verifBool("sub") {
		opts["sub"] = "ss"
		wantSub = "ss"
	}
	if verifBool("regex") {
		opts["regex"] = "^r"
		wantRegex = "^r"
	}
	err := d.Update(opts)
	verifSettle()
	verifAssert(err == nil, "update-accepted")
	got := d.GetMatcher()
	verifAssert(got.Prefix == wantPrefix && got.Sub == wantSub && got.Regex == wantRegex, "every-filter-option-of-the-change-applied")
	verifAssert(d.Addr == wantAddr, "address-option-of-the-change-applied")
	verifCover("end")
}
