//go:build verif

package destination

// Helpers shared by the harness files of this package. They use only the package's stable surface (New, Run,
// In, the drop counters), so that a harness file that names a changed internal can be left out on its own.

import (
	"strings"
	"time"

	"github.com/grafana/carbon-relay-ng/matcher"
)

// verifHealthyWriter: an endpoint that accepts everything.
type verifHealthyWriter struct{ log []byte }

func (w *verifHealthyWriter) Write(p []byte) (int, error) {
	w.log = append(w.log, p...)
	return len(p), nil
}

func verifTickerIdx(sub string) int {
	for i := 0; i < verifNumTickers(); i++ {
		if strings.Contains(verifTickerName(i), sub) {
			return i
		}
	}
	return -1
}

// verifSpoolBuf: size of the spool's real-time input queue (spoolbuf option) of the destinations built below
var verifSpoolBuf = 4

func verifNewDest(spool bool, connBuf, ioBuf int) *Destination {
	keepsafe_initial_cap = 4
	m, _ := matcher.New("", "", "", "", "", "")
	period := time.Second
	spoolDir := "/spool"
	if !verifIsSymbolic() {
		// natively the flush and reconnect tickers cannot be fired by hand: let them run fast instead
		period = 20 * time.Millisecond
		spoolDir = verifTempDir()
	}
	d, err := New("route", m, verifEndpointAddr(), spoolDir, spool, false, period, period, connBuf, ioBuf, verifSpoolBuf, 12, 10, time.Hour, time.Millisecond, time.Millisecond)
	if err != nil {
		panic(err)
	}
	return d
}

func verifLines(n int) ([][]byte, string) {
	var ls [][]byte
	var all []byte
	for i := 0; i < n; i++ {
		l := verifBytes("line", 1+verifChoice("len", 2))
		for _, b := range l {
			verifAssume(b != '\n')
		}
		ls = append(ls, l)
		all = append(all, l...)
		all = append(all, '\n')
	}
	return ls, string(all)
}

func verifReconnTicker() int { return verifTickerIdx("destination.go") }

func verifAllLogs() string {
	var b []byte
	for k := 0; k < verifNumConns(); k++ {
		b = append(b, verifEndpointLog(k)...)
	}
	return string(b)
}

// verifFlushConns fires the flush ticker of every connection writer.
func verifFlushConns() {
	for i := 0; i < verifNumTickers(); i++ {
		if strings.Contains(verifTickerName(i), "conn.go") {
			verifTick(i)
		}
	}
	verifSettle()
	if !verifIsSymbolic() {
		time.Sleep(150 * time.Millisecond)
	}
}

