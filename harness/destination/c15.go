//go:build verif

package destination

// VerifC15AddrSplit (C15): a destination address "host", "host:port" or "host:port:instance" is split
// into the address without instance and the instance; only the exactly-two-colon form has an instance.
func VerifC15AddrSplit() {
	n := verifChoice("len", 7)
	addr := verifString("addr", n)
	got, inst := addrInstanceSplit(addr)
	colons := 0
	second := -1
	for i := 0; i < n; i++ {
		if addr[i] == ':' {
			colons++
			if colons == 2 {
				second = i
			}
		}
	}
	if colons == 2 {
		verifAssert(got == addr[:second], "two-colons-address-is-host-and-port")
		verifAssert(inst == addr[second+1:], "two-colons-instance-is-third-component")
	} else {
		verifAssert(got == addr, "otherwise-address-unchanged")
		verifAssert(inst == "", "otherwise-no-instance")
	}
	verifCover("end")
}
