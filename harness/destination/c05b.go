//go:build verif

package destination

import (
	"time"

	"github.com/grafana/carbon-relay-ng/stats"
)

func verifNewConn(w *Writer, inCap int, pickle bool) *Conn {
	keepsafe_initial_cap = 4
	key := "k"
	c := &Conn{
		buffered:          w,
		shutdown:          make(chan bool, 2),
		In:                make(chan []byte, inCap),
		key:               key,
		up:                true,
		pickle:            pickle,
		flush:             make(chan bool),
		flushErr:          make(chan error),
		periodFlush:       time.Second,
		keepSafe:          NewKeepSafe(keepsafe_initial_cap, keepsafe_keep_duration),
		numErrTruncated:   stats.Counter("dest=" + key + ".unit=Err.type=truncated"),
		numErrWrite:       stats.Counter("dest=" + key + ".unit=Err.type=write"),
		numErrFlush:       stats.Counter("dest=" + key + ".unit=Err.type=flush"),
		numOut:            stats.Counter("dest=" + key + ".unit=Metric.direction=out"),
		durationWrite:     stats.Timer("dest=" + key + ".what=durationWrite"),
		durationTickFlush: stats.Timer("dest=" + key + ".what=durationFlush.type=ticker"),
		durationManuFlush: stats.Timer("dest=" + key + ".what=durationFlush.type=manual"),
		tickFlushSize:     stats.Histogram("dest=" + key + ".unit=B.what=FlushSize.type=ticker"),
		manuFlushSize:     stats.Histogram("dest=" + key + ".unit=B.what=FlushSize.type=manual"),
		numBuffered:       stats.Gauge("dest=" + key + ".unit=Metric.what=numBuffered"),
		bufferSize:        stats.Gauge("dest=" + key + ".unit=Metric.what=bufferSize"),
		numDropBadPickle:  stats.Counter("dest=" + key + ".unit=Metric.action=drop.reason=bad_pickle"),
	}
	return c
}

// VerifC05ConnWrite: plain mode emits line ++ "\n", exactly once, through the buffered writer.
func VerifC05ConnWrite() {
	S := 1 + verifChoice("S", 4)
	st := &verifHealthyWriter{}
	c := verifNewConn(NewWriter(st, S, "k"), 2, false)
	var want []byte
	// the lines are carved back to back from one buffer of the caller (no separator byte between them,
	// spare capacity behind each): the connection must not write into memory it was not handed
	l0, l1 := 1+verifChoice("len", 4), 1+verifChoice("len", 4)
	arena := verifBytes("arena", l0+l1)
	orig := string(arena)
	for i := 0; i < 2; i++ {
		line := arena[:l0]
		if i == 1 {
			line = arena[l0:]
		}
		n, err := c.Write(line)
		verifAssert(err == nil, "healthy-write-no-error")
		verifAssert(n == len(line)+1, "written-count-is-line-plus-newline")
		want = append(want, line...)
		want = append(want, '\n')
	}
	got := append(append([]byte{}, st.log...), c.buffered.buf[:c.buffered.n]...)
	verifAssert(verifCatEq(got, nil, want, nil), "stream-is-lines-each-with-one-newline")
	verifAssert(string(arena) == orig, "handed-off-lines-not-modified")
	verifCover("end")
}

// VerifC05HandleData: the connection writer goroutine under every order of line arrivals and flush
// ticks: the endpoint log followed by the pending buffer is exactly the lines in hand-off order, each
// terminated by one newline; every line was put into keepSafe; after a final flush all is at the endpoint.
func VerifC05HandleData() {
	S := 1 + verifChoice("S", 3)
	st := &verifHealthyWriter{}
	c := verifNewConn(NewWriter(st, S, "k"), 3, false)
	c.wg.Add(1)
	go c.HandleData()
	verifSettle()
	flushTicker := verifTickerIdx("conn.go")
	k := 1 + verifChoice("nlines", verifParamInt("maxlines", 3))
	var want []byte
	var lines [][]byte
	for i := 0; i < k; i++ {
		if verifBool("tick-before-line") {
			verifTick(flushTicker)
			verifSettle()
		}
		line := verifBytes("line", 1+verifChoice("len", 3))
		lines = append(lines, line)
		c.In <- line
		verifSettle()
		want = append(want, line...)
		want = append(want, '\n')
	}
	got := append(append([]byte{}, st.log...), c.buffered.buf[:c.buffered.n]...)
	verifAssert(verifCatEq(got, nil, want, nil), "stream-is-lines-in-order")
	verifAssert(c.numOut.Count() == int64(k), "out-counter")
	safe := c.keepSafe.GetAll()
	verifAssert(len(safe) == k, "keepsafe-has-every-line")
	if len(safe) == k {
		for i := range safe {
			verifAssert(verifCatEq(safe[i], nil, lines[i], nil), "keepsafe-line-content")
		}
	}
	if verifIsSymbolic() {
		verifTick(flushTicker)
		verifSettle()
		verifAssert(verifCatEq(st.log, nil, want, nil), "structural/after-flush-all-at-endpoint")
		verifAssert(c.buffered.n == 0, "structural/after-flush-buffer-empty")
	}
	verifCover("end")
}

