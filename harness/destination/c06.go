//go:build verif

package destination



// VerifC06Steady: hand-off never stalls whatever the endpoint does, and in the steady states every line
// is received or counted: endpoint absent (no spool) => conn_down_no_spool; healthy => received in order
// or slow_conn; black-holing => hand-off still returns, overflow counted as slow_conn.
func VerifC06Steady() {
	behaviour := verifChoice("endpoint", 5) // 0 absent, 1 healthy, 2 accepts but never reads, 3 like 2 and then closes mid-stream, 4 absent at first, then healthy
	if p := verifParam("endpoint"); p != "" { // restrict the scenario (used by the bounded-preemption obligations)
		verifAssume(behaviour == int(p[0]-'0'))
	}
	connBuf := 1 + verifChoice("connbuf", 2)
	if p := verifParam("connbuf"); p != "" {
		verifAssume(connBuf == int(p[0]-'0'))
	}
	d := verifNewDest(false, connBuf, 4)
	if behaviour != 0 && behaviour != 4 {
		verifEndpointUp(true)
	}
	d.Run()
	verifSettle()
	if behaviour == 4 {
		// the first connection attempt was refused; a line handed off meanwhile is counted; then the endpoint
		// comes up and the periodic reconnect finds it: from then on this is the healthy steady state
		d0 := d.numDropNoConnNoSpool.Count()
		d.In <- []byte("early 1 1")
		verifSettle()
		verifAssert(d.numDropNoConnNoSpool.Count()-d0 == 1, "absent-endpoint-every-line-counted-conn-down")
		verifEndpointUp(true)
		verifTick(verifReconnTicker())
		verifSettle()
		behaviour = 1 // (that it reconnected shows in the healthy assertions below: no conn-down drops any more)
	}
	if behaviour >= 2 {
		verifEndpointStall(0, true)
	}
	if behaviour == 1 && verifBool("idle-keepsafe-ticks") {
		// the connection sits idle long enough for keepSafe's expiry ticker to fire (twice)
		for i := 0; i < 2; i++ {
			verifTick(verifTickerIdx("keepsafe.go"))
			verifSettle()
		}
	}
	n := 2 + verifChoice("nlines", 3)
	if p := verifParam("nlines"); p != "" {
		verifAssume(n == int(p[0]-'0'))
	}
	if behaviour == 2 {
		n = 6 // enough to overflow iobuf + the line in the writer's hands + connbuf more than once
	}
	lines, want := verifLines(n)
	drop0 := d.numDropNoConnNoSpool.Count()
	slow0 := d.numDropSlowConn.Count()
	// param "preemptions": from here on the relay / connection goroutines may additionally be switched before any
	// lock / atomic / channel operation (bounded-preemption exploration), not only when they block
	verifPreemptions(verifParamInt("preemptions", 0))
	for i, l := range lines {
		if i > 0 && behaviour != 2 && verifBool("reconnect-tick") {
			verifTick(verifReconnTicker())
			verifSettle()
		}
		d.In <- l // must complete: a deadlock here is reported by the engine
		verifSettle()
	}
	verifPreemptions(0)
	dropped := int(d.numDropNoConnNoSpool.Count() - drop0)
	slow := int(d.numDropSlowConn.Count() - slow0)
	switch behaviour {
	case 0:
		verifAssert(dropped == n, "absent-endpoint-every-line-counted-conn-down")
		verifAssert(slow == 0, "absent-endpoint-no-slow-drops")
		verifAssert(verifNumConns() == 0, "absent-endpoint-no-connection")
	case 1:
		verifFlushConns()
		verifAssert(dropped == 0, "healthy-no-conn-down-drops")
		got := verifAllLogs()
		if slow == 0 {
			verifAssert(got == want, "healthy-all-lines-received-in-order")
		}
		// received + counted == handed off
		nrecv := 0
		for _, c := range []byte(got) {
			if c == '\n' {
				nrecv++
			}
		}
		verifAssert(nrecv+slow == n, "healthy-received-or-counted")
	case 3:
		// the black-holing endpoint now closes the connection while the writer is stuck in a write;
		// afterwards the endpoint is gone: hand-off must still return and every line is counted conn-down
		verifEndpointUp(false)
		verifEndpointClose(0)
		verifSettle()
		// the relay notices the dead connection when it next wakes up: the line that wakes it belongs to
		// the transition (C07's subject), the steady state starts after it
		d.In <- []byte("transition")
		verifSettle()
		d0 := d.numDropNoConnNoSpool.Count()
		more, _ := verifLines(2)
		for _, l := range more {
			d.In <- l
			verifSettle()
		}
		verifAssert(int(d.numDropNoConnNoSpool.Count()-d0) == 2, "after-close-every-line-counted-conn-down")
	case 2:
		verifAssert(dropped == 0, "stalled-no-conn-down-drops")
		if verifBool("manual-flush-while-writer-blocked") {
			// a manual flush (Destination.Flush, as Shutdown issues it) is requested while the connection's writer
			// is stuck in a socket write; it is served once the endpoint reads again
			go d.Flush()
			verifSettle()
		}
		// the endpoint starts reading again (it was healthy but slow): everything that was not counted as a
		// slow-connection drop arrives
		verifEndpointStall(0, false)
		verifSettle()
		verifFlushConns()
		nrecv := 0
		for _, c := range []byte(verifAllLogs()) {
			if c == '\n' {
				nrecv++
			}
		}
		verifAssert(nrecv+int(d.numDropSlowConn.Count()-slow0) == n, "slow-endpoint-received-or-counted")
		// (only the no-stall claim applies to a black-holing endpoint: reaching this point means every hand-off returned)
		verifAssert(slow <= n, "stalled-slow-drops-bounded")
	}
	verifCover("end")
}

// VerifC06SpoolBlackhole: spooling on. Lines are spooled while the endpoint is absent; then the endpoint comes
// back as a black hole (accepts the connection, never reads), so the unspooled backlog fills the connection's
// queue and buffers. Handing further lines to the destination must still return (a relay stuck pushing the
// backlog into the full queue shows as a deadlock of the hand-off), also after the black hole finally closes the
// connection; and with spooling on no line is ever counted as conn_down_no_spool.
func VerifC06SpoolBlackhole() {
	d := verifNewDest(true, 1, 4)
	d.Run()
	verifSettle()
	nb := 3 + verifChoice("backlog", 3)
	for i := 0; i < nb; i++ {
		d.In <- []byte{'s', byte('0' + i)} // spooled
		verifSettle()
	}
	verifEndpointStallNew(true)
	verifEndpointUp(true)
	for i := 0; i < 3; i++ {
		verifTick(verifReconnTicker()) // reconnects; unspooling into the black hole starts
		verifSettle()
	}
	n := 2 + verifChoice("nlines", 2)
	for i := 0; i < n; i++ {
		d.In <- []byte{'l', byte('0' + i)} // must complete
		verifSettle()
	}
	if verifBool("black-hole-closes") {
		verifEndpointUp(false)
		for k := 0; k < verifNumConns(); k++ {
			verifEndpointClose(k)
		}
		verifSettle()
		for i := 0; i < 2; i++ {
			d.In <- []byte{'m', byte('0' + i)} // must complete
			verifSettle()
		}
	}
	verifAssert(d.numDropNoConnNoSpool.Count() == 0, "spooling-never-counts-conn-down-drops")
	verifCover("end")
}
