//go:build verif

package destination

import (
	"bytes"
	"strconv"

	ogorek "github.com/kisielk/og-rek"
)

// C16 (pickle): ParseDataPoint + Pickle + Conn.Write in pickle mode.
//
// The og-rek encoder cannot run in the engine (reflection, math.Float64bits of a symbolic float): there
// (*Encoder).Encode is an intrinsic producing an opaque payload that is an uninterpreted function of the
// shape and the leaf values of the structure handed to it (engine/intrinsics_pickle.go). The harness
// obtains the expected payload by handing the structure [(name, (uint32 ts, float64 val))] built from its
// own reading of the tokens to the same encoder; natively both sides run the real og-rek.

func verifC16Token(tag string, n int) []byte {
	b := verifBytes(tag, n)
	for _, c := range b {
		verifAssume(verifAnd(c > 0x20, c < 0x7f))
	}
	return b
}

// verifC16ValueToken: the value token: one or two free digits (exact in the ParseFloat model) or one of a
// set of concrete spellings (parsed by the real strconv.ParseFloat), valid and invalid ones.
var verifC16Spellings = []string{"1.5", "-2e3", ".5", "0x1p-2", "NaN", "+Inf", "1_0", "1e400", "abc", "1.5.2", "-"}

func verifC16ValueToken() []byte {
	k := verifChoice("valkind", 2+len(verifC16Spellings))
	if k >= 2 {
		return []byte(verifC16Spellings[k-2])
	}
	b := verifBytes("val", k+1)
	for _, c := range b {
		verifAssume(verifAnd(c >= '0', c <= '9'))
	}
	return b
}

func verifC16IntParam(name string, def int) int {
	if p := verifParam(name); p != "" {
		n, err := strconv.Atoi(p)
		if err != nil {
			panic(err)
		}
		return n
	}
	return def
}

// verifC16Uint32 reads a token as a decimal uint32 without forking: (is it one, its value).
func verifC16Uint32(tok []byte) (bool, uint32) {
	ok := len(tok) > 0
	var v uint64
	for _, c := range tok {
		ok = verifAnd(ok, verifAnd(c >= '0', c <= '9'))
		v = v*10 + uint64(c-'0')
	}
	if len(tok) > 19 {
		panic("token too long for the oracle")
	}
	ok = verifAnd(ok, v <= 0xffffffff)
	return ok, uint32(v)
}

func verifC16Expected(name string, ts uint32, val float64) []byte {
	var payload bytes.Buffer
	ogorek.NewEncoder(&payload).Encode([]interface{}{ogorek.Tuple{name, ogorek.Tuple{ts, val}}})
	n := payload.Len()
	frame := []byte{byte(n >> 24), byte(n >> 16), byte(n >> 8), byte(n)}
	return append(frame, payload.Bytes()...)
}

// VerifC16Pickle: one line with free name / value / timestamp tokens through a pickle-mode connection,
// followed by a fixed good line: a timestamp that is not a decimal uint32 (or a value ParseFloat rejects)
// is a counted bad_pickle drop with nothing written; otherwise exactly one frame
// be32(len(payload)) ++ payload with payload = pickle([(name, (uint32 ts, float64 val))]).
func VerifC16Pickle() {
	st := &verifHealthyWriter{}
	c := verifNewConn(NewWriter(st, 4096, "k"), 2, true)
	name := verifC16Token("name", 1+verifChoice("namelen", verifC16IntParam("maxname", 3)))
	if k := verifC16IntParam("longname", 0); k > 0 {
		// a long series name (k concrete bytes after the free ones): the frame outgrows any fixed initial buffer
		name = append(name, bytes.Repeat([]byte("n"), k)...)
	}
	valTok := verifC16ValueToken()
	// timestamp token: a concrete prefix (param "tsprefix", usually empty) followed by 1..maxts free bytes
	// (param "tsdigits": free digits only), so that long tokens around 2^32 stay tractable
	tsFree := verifC16Token("ts", 1+verifChoice("tslen", verifC16IntParam("maxts", 3)))
	if verifParam("tsdigits") != "" {
		for _, d := range tsFree {
			verifAssume(verifAnd(d >= '0', d <= '9'))
		}
	}
	tsTok := append([]byte(verifParam("tsprefix")), tsFree...)
	line := append(append(append(append(append([]byte{}, name...), ' '), valTok...), ' '), tsTok...)

	drops0 := c.numDropBadPickle.Count()
	n, err := c.Write(line)
	verifAssert(err == nil, "pickle-write-never-returns-an-error-on-a-healthy-connection")
	got := append(append([]byte{}, st.log...), c.buffered.buf[:c.buffered.n]...)

	tsOK, ts := verifC16Uint32(tsTok)
	val, verr := strconv.ParseFloat(string(valTok), 64)
	good := verifAnd(tsOK, verr == nil)
	var want []byte
	if good {
		want = verifC16Expected(string(name), ts, val)
		verifAssert(n == len(want), "written-count-is-frame-length")
		verifAssert(bytes.Equal(got, want), "frame-is-be32-length-then-pickle-of-name-ts-val")
		verifAssert(c.numDropBadPickle.Count() == drops0, "good-line-not-counted-as-drop")
	} else {
		verifAssert(n == 0, "bad-line-reports-nothing-written")
		verifAssert(len(got) == 0, "bad-line-emits-nothing")
		verifAssert(c.numDropBadPickle.Count() == drops0+1, "bad-line-counted-as-bad-pickle-drop")
	}

	// a second, fixed line: frames are concatenated, one per line, no separator
	n2, err2 := c.Write([]byte("b.c 2.5 1500000007\n"))
	want2 := verifC16Expected("b.c", 1500000007, 2.5)
	got = append(append([]byte{}, st.log...), c.buffered.buf[:c.buffered.n]...)
	verifAssert(err2 == nil && n2 == len(want2), "second-line-written")
	verifAssert(bytes.Equal(got, append(append([]byte{}, want...), want2...)), "frames-concatenated-one-per-line")
	verifCover("end")
}

// VerifC16ParseDataPoint: the datapoint handed on carries exactly the three tokens' meaning; lines without
// exactly three fields are rejected.
func VerifC16ParseDataPoint() {
	nf := 1 + verifChoice("fields", 4)
	var line []byte
	var toks [][]byte
	for i := 0; i < nf; i++ {
		var t []byte
		if i == 1 {
			t = verifC16ValueToken()
		} else {
			t = verifC16Token("tok", 1+verifChoice("toklen", 2))
		}
		toks = append(toks, t)
		if i > 0 {
			line = append(line, ' ')
		}
		line = append(line, t...)
	}
	dp, err := ParseDataPoint(line)
	if nf != 3 {
		verifAssert(err != nil && dp == nil, "not-three-fields-rejected")
		verifCover("end")
		return
	}
	tsOK, ts := verifC16Uint32(toks[2])
	val, verr := strconv.ParseFloat(string(toks[1]), 64)
	if verifAnd(tsOK, verr == nil) {
		verifAssert(err == nil && dp != nil, "good-line-accepted")
		if dp != nil {
			verifAssert(dp.Name == string(toks[0]), "name-is-first-token")
			verifAssert(dp.Time == ts, "time-is-third-token-as-uint32")
			verifAssert(dp.Val == val || (dp.Val != dp.Val && val != val), "value-is-second-token-as-float64")
		}
	} else {
		verifAssert(err != nil && dp == nil, "bad-timestamp-or-value-rejected")
	}
	verifCover("end")
}

// VerifC16PickleIndependent: Pickle is one package-level function used by every pickle destination, each in its
// own goroutine. The message it returned for one datapoint must therefore not be altered by pickling another
// datapoint (which may happen in another destination's goroutine before the first message has been copied into
// its connection's buffer): the first message, kept by the caller, still holds the frame of the first datapoint
// after two further calls, and each call's own result is the frame of its own datapoint.
func VerifC16PickleIndependent() {
	n1 := verifC16Token("name1", 1+verifChoice("namelen1", 2))
	n2 := verifC16Token("name2", 1+verifChoice("namelen2", 3))
	dp1 := &Datapoint{Name: string(n1), Val: 1.5, Time: 1500000001}
	dp2 := &Datapoint{Name: string(n2), Val: 2.5, Time: 1500000002}
	m1 := Pickle(dp1)
	want1 := verifC16Expected(string(n1), 1500000001, 1.5)
	verifAssert(bytes.Equal(m1, want1), "frame-is-be32-length-then-pickle-of-name-ts-val")
	m2 := Pickle(dp2)
	want2 := verifC16Expected(string(n2), 1500000002, 2.5)
	verifAssert(bytes.Equal(m2, want2), "frame-is-be32-length-then-pickle-of-name-ts-val")
	m3 := Pickle(dp2)
	verifAssert(bytes.Equal(m3, want2), "frame-is-be32-length-then-pickle-of-name-ts-val")
	verifAssert(bytes.Equal(m1, want1), "message-not-altered-by-pickling-another-datapoint")
	verifAssert(bytes.Equal(m2, want2), "message-not-altered-by-pickling-another-datapoint")
	verifCover("end")
}
