//go:build verif

package destination

import (
	"errors"

	"github.com/grafana/carbon-relay-ng/stats"
)

var verifErrStub = errors.New("verif: stub writer error")

// verifStubWriter is the io.Writer contract as a nondeterministic stub: every call accepts a
// solver-chosen prefix of its argument (0 <= k <= len; k < len => error) and logs what it accepted.
type verifStubWriter struct {
	log      []byte
	calls    int
	allFull  bool
	maxCalls int
}

func (w *verifStubWriter) Write(p []byte) (int, error) {
	w.calls++
	k := verifInt("accepted", 0, len(p))
	k = verifConcretize(k)
	w.log = append(w.log, p[:k]...)
	if k < len(p) {
		w.allFull = false
		return k, verifErrStub
	}
	if verifBool("err-after-full-write") {
		w.allFull = false
		return k, verifErrStub
	}
	return k, nil
}

func verifWriterState(S int) (*Writer, *verifStubWriter, []byte) {
	st := &verifStubWriter{allFull: true}
	w := &Writer{key: "k", buf: make([]byte, S), wr: st, durationOverflowFlush: stats.Timer("dest=k.what=durationFlush.type=overflow")}
	n0 := verifChoice("n0", S+1)
	content := verifBytes("buf", S)
	copy(w.buf, content)
	w.n = n0
	pre := append([]byte{}, content[:n0]...)
	return w, st, pre
}

func verifCatEq(a, b, c, d []byte) bool {
	// a ++ b == c ++ d
	if len(a)+len(b) != len(c)+len(d) {
		return false
	}
	ab := append(append([]byte{}, a...), b...)
	cd := append(append([]byte{}, c...), d...)
	ok := true
	for i := range ab {
		if ab[i] != cd[i] {
			ok = false
		}
	}
	return ok
}

// VerifC05WriteStep: one Write from an arbitrary valid buffered-writer state (one-step induction):
// bytes accepted by the underlying writer followed by the pending buffer always equal the previous
// such sequence followed by the accepted prefix of p -- nothing torn, duplicated, reordered or lost.
func VerifC05WriteStep() {
	S := 1 + verifChoice("S", verifParamInt("maxS", 3))
	w, st, pre := verifWriterState(S)
	p := verifBytes("p", verifChoice("plen", 2*S+3))
	nn, err := w.Write(p)
	verifAssert(nn >= 0 && nn <= len(p), "nn-in-range")
	verifAssert(w.n >= 0 && w.n <= S, "fill-in-range")
	if nn >= 0 && nn <= len(p) && w.n >= 0 && w.n <= S {
		verifAssert(verifCatEq(st.log, w.buf[:w.n], pre, p[:nn]), "stream-invariant")
	}
	if err == nil {
		verifAssert(nn == len(p), "nil-error-means-all-accepted")
	} else {
		verifAssert(w.err == err, "error-is-sticky")
	}
	if st.allFull {
		verifAssert(err == nil, "no-error-when-underlying-writes-succeed")
	}
	verifCover("end")
}

// VerifC05FlushStep: one Flush from an arbitrary valid state.
func VerifC05FlushStep() {
	S := 1 + verifChoice("S", verifParamInt("maxS", 3))
	w, st, pre := verifWriterState(S)
	err := w.Flush()
	verifAssert(w.n >= 0 && w.n <= S, "fill-in-range")
	if w.n >= 0 && w.n <= S {
		verifAssert(verifCatEq(st.log, w.buf[:w.n], pre, nil), "stream-invariant")
	}
	if st.allFull {
		verifAssert(err == nil && w.n == 0, "flush-empties-buffer")
		verifAssert(st.calls <= 1, "at-most-one-underlying-write")
	} else {
		verifAssert(err != nil && w.err == err, "error-reported-and-sticky")
	}
	verifCover("end")
}
