//go:build verif

package destination

import "time"

// VerifC07KeepSafeWindow: the timing premise of the outage guarantee is that a connection retains at least the last
// 10 seconds of written lines (destination/keepsafe.go, conn.go: keepsafe_keep_duration), whatever the flush and
// buffer tuning: a connection built by NewConn with any flush period (1 ms .. 65 s) and any queue / buffer size keeps
// lines for >= 10 s before its keepSafe rotates them out.
func VerifC07KeepSafeWindow() {
	keepsafe_initial_cap = 4
	verifEndpointUp(true)
	flush := time.Duration(1+int64(verifUint16("flush-ms"))) * time.Millisecond
	c, err := NewConn("k", verifEndpointAddr(), flush, verifBool("pickle"), 1+verifChoice("connbuf", 3), 1+verifChoice("iobuf", 4))
	if err != nil {
		panic(err)
	}
	verifAssert(c.keepSafe.periodKeep >= 10*time.Second, "connection-retains-at-least-the-last-10s-of-written-lines")
	verifCover("end")
}
