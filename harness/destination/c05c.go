//go:build verif

package destination

// VerifC05AddrUpdate: a destination's address is changed at runtime (modDest addr=...) while its old connection
// is still alive and holds lines (its endpoint had stopped reading). The new connection is healthy: the stream its
// endpoint receives is exactly the lines handed off after the change, in order, each once -- whatever the old
// connection still does with its own lines when its endpoint reads again. The hand-offs around the change must
// all return (a relay stuck in the change shows as a deadlock).
func VerifC05AddrUpdate() {
	d := verifNewDest(false, 4, 8)
	verifEndpointUp(true)
	d.Run()
	verifSettle()
	verifEndpointStall(0, true)
	na := 3 + verifChoice("lines-before", 2)
	for i := 0; i < na; i++ {
		d.In <- []byte{'a', byte('0' + i)}
		verifSettle()
	}
	err := d.Update(map[string]string{"addr": verifEndpointAddr()})
	verifSettle()
	verifAssert(err == nil, "update-accepted")
	verifAssert(verifNumConns() == 2, "address-change-opens-a-new-connection")
	nb := 1 + verifChoice("lines-after", 2)
	want := ""
	for i := 0; i < nb; i++ {
		b := verifByte("payload")
		verifAssume(b != '\n')
		d.In <- []byte{'b', b}
		verifSettle()
		want += string([]byte{'b', b, '\n'})
	}
	verifEndpointStall(0, false) // the old endpoint reads again: the old connection writes out what it still held
	verifSettle()
	verifFlushConns()
	verifSettle()
	verifAssert(string(verifEndpointLog(1)) == want, "new-connection-receives-exactly-the-lines-handed-off-after-the-change")
	verifCover("end")
}
