//go:build verif

package aggregator

// C10, harness A: bounded histories of points and flush ticks from the empty state, driven through the
// real run() goroutine (NewMocked with the harness clock and tick channel), checked against a ghost model.

import (
	"bytes"
	"math"
	"strconv"
	"strings"
	"time"

	"github.com/grafana/carbon-relay-ng/matcher"
)

var c10Clock int64

func c10Now() time.Time { return time.Unix(c10Clock, 0) }

// ghost bucket: the contributions recorded for (key, q) in arrival order
type c10Bucket struct {
	key  string
	q    uint
	vals []float64
	tss  []uint32
}

func c10Find(l []*c10Bucket, key string, q uint) int {
	for i, b := range l {
		if b.key == key && b.q == q {
			return i
		}
	}
	return -1
}

// c10CheckRep: the representation invariant that carries the no-double-emission / ordered-flush argument to
// longer histories: tsList is strictly ascending and lists exactly the open first-level buckets, and every
// bucket the ghost model holds open is open in the aggregator. Read at quiescence (after verifSettle).
func c10CheckRep(a *Aggregator, open []*c10Bucket) {
	verifAssert(len(a.tsList) == len(a.aggregations), "invariant-tslist-lists-open-buckets")
	for i, q := range a.tsList {
		if i > 0 {
			verifAssert(a.tsList[i-1] < q, "invariant-tslist-strictly-ascending")
		}
		_, ok := a.aggregations[q]
		verifAssert(ok, "invariant-tslist-lists-open-buckets")
	}
	for _, b := range open {
		agg, ok := a.aggregations[b.q]
		if !ok {
			verifFail("invariant-ghost-open-bucket-is-open")
			continue
		}
		_, ok = agg.state[b.key]
		verifAssert(ok, "invariant-ghost-open-bucket-is-open")
	}
}

// c10Pick: a value from a comma separated list of concrete candidates (verifChoice), or with "sym"
// a symbolic 16-bit value.
func c10Pick(name, param string) uint {
	if param == "sym" {
		return uint(verifUint16(name))
	}
	cands := strings.Split(param, ",")
	x, err := strconv.Atoi(cands[verifChoice(name, len(cands))])
	if err != nil {
		panic(err)
	}
	return uint(x)
}

// c10HistValue: the histories put no constraint on the value (NaN and infinities included): the oracle
// compares the emitted value with the specification applied to the same contributions. Exception:
// percentiles order the values, and where NaN sorts is outside the property (sort.Float64s puts it first).
func c10HistValue(fun string, small bool) float64 {
	if small {
		return c10Value(true)
	}
	v := verifFloat64("v")
	if fun == "percentiles" {
		verifAssume(v == v)
	}
	return v
}

func c10U32(name string, narrow bool) uint32 {
	if narrow {
		return uint32(verifUint16(name))
	}
	return verifUint32(name)
}

const c10Regex = "^(a|b)[0-9]$"

var c10Names = []string{"a1", "b1", "a2", "c1"} // a1,a2 share capture group "a"; c1 does not match

// VerifC10Hist. params: fun, events (one "x" per event), names (one "x" per usable name), outfmt,
// cache ("1"/"0"), intervals, waits ("sym" or candidate list), small ("1": small-integer values),
// narrow ("1": 16-bit timestamps and clock), first (comma list pinning the first events; splits an obligation
// into parts that run in parallel).
func VerifC10Hist() {
	fun := verifParam("fun")
	nev := len(verifParam("events"))
	nnames := len(verifParam("names"))
	outFmt := verifParam("outfmt")
	cache := verifParam("cache") == "1"
	small := verifParam("small") == "1"
	interval := c10Pick("interval", verifParam("intervals"))
	wait := c10Pick("wait", verifParam("waits"))
	verifAssume(interval != 0) // interval 0 divides by zero: property C14

	var prefix []string // pinned first events: "0" = tick, "k" = point with the k-th name
	if f := verifParam("first"); f != "" {
		prefix = strings.Split(f, ",")
	}
	narrow := verifParam("narrow") == "1" // timestamps and clock drawn from 16 bits (cheaper queries)
	clock0 := c10U32("clock0", narrow)
	c10Clock = int64(clock0)
	verifAssume(uint(c10Clock) >= wait) // the code's unsigned now-Wait is only meaningful then

	m, err := matcher.New("", "", "", "", c10Regex, "")
	if err != nil {
		panic(err)
	}
	InitMetrics()
	// the timestamp range statistics (not part of the property) have already seen both extremes in this
	// period, so that Sample's comparisons are decided and do not multiply the paths
	rangeTracker.Sample(0)
	rangeTracker.Sample(math.MaxUint32)
	out := make(chan []byte, 64)
	tick := make(chan time.Time, 1)
	a, err := NewMocked(fun, m, outFmt, cache, interval, wait, false, out, 16, c10Now, tick)
	if err != nil {
		panic(err)
	}

	var open, emitted []*c10Bucket
	lastTick := c10Clock // instant of the previous tick (ticks are buffered and may be consumed late)

	for ev := 0; ev < nev; ev++ {
		if ev > 0 {
			c10CheckRep(a, open)
		}
		c10Clock += int64(verifUint16("advance")) // the clock never goes back
		now := uint(c10Clock)
		tooOld0 := numTooOld.Count()
		in0 := a.numIn.Count()

		kind := 0
		if ev < len(prefix) {
			kind, _ = strconv.Atoi(prefix[ev]) // the obligation is split by its first events
			verifAssume(kind <= nnames)
		} else {
			kind = verifChoice("event", 1+nnames)
		}
		if kind > 0 {
			// ---- a point arrives
			name := c10Names[kind-1]
			ts := c10U32("ts", narrow)
			val := c10HistValue(fun, small)
			a.AddMaybe([][]byte{[]byte(name), []byte("0"), []byte("0")}, val, ts)
			verifSettle()
			dOld := numTooOld.Count() - tooOld0
			verifAssert(len(out) == 0, "no-output-outside-flush")
			if name[0] == 'c' {
				verifAssert(a.numIn.Count() == in0 && dOld == 0, "non-matching-point-ignored")
				continue
			}
			verifAssert(a.numIn.Count() == in0+1, "matching-point-consumed")
			key := strings.Replace(outFmt, "$1", name[:1], -1)
			q := uint(ts) - uint(ts)%interval

			if c10Find(emitted, key, q) >= 0 {
				// bucket already emitted: never again, the point is counted as too old
				verifAssert(dOld == 1, "point-for-emitted-bucket-counted-too-old")
				continue
			}
			oi := c10Find(open, key, q)
			contributes := false
			if q > now-wait {
				// wait period not elapsed: the point must contribute
				verifAssert(dOld == 0, "point-for-open-bucket-not-dropped")
				contributes = true
			} else if dOld == 0 {
				// late, not counted: it must have gone into the still open bucket
				verifAssert(oi >= 0, "late-point-neither-counted-nor-contributing")
				contributes = true
			} else {
				verifAssert(dOld == 1, "too-old-counter-steps-by-one")
			}
			if contributes {
				if oi < 0 {
					open = append(open, &c10Bucket{key: key, q: q})
					oi = len(open) - 1
				}
				open[oi].vals = append(open[oi].vals, val)
				open[oi].tss = append(open[oi].tss, ts)
			}
			continue
		}

		// ---- a flush tick; its instant lies between the previous tick's instant and the clock
		lastTick += int64(verifUint16("tickadvance"))
		verifAssume(lastTick <= c10Clock)
		tick <- time.Unix(lastTick, 0)
		verifSettle()
		verifAssert(numTooOld.Count() == tooOld0, "tick-does-not-count-too-old")
		cutoff := uint(lastTick) - wait

		matched := make([][]string, len(open))
		var prevTs uint
		nlines := len(out)
		for li := 0; li < nlines; li++ {
			line := <-out
			sp := bytes.IndexByte(line, ' ')
			if sp < 0 {
				verifFail("line-has-three-fields")
				continue
			}
			lkey := string(line[:sp])
			lval := verifLineFloat(line, 1)
			lts := uint(verifLineUint(line, 2))
			if li > 0 {
				verifAssert(lts >= prevTs, "flush-in-ascending-bucket-order")
			}
			prevTs = lts
			rname := fun
			if fun == "percentiles" {
				dot := strings.LastIndexByte(lkey, '.')
				if dot < 0 {
					verifFail("percentile-line-has-suffix")
					continue
				}
				lkey, rname = lkey[:dot], lkey[dot+1:]
			}
			bi := c10Find(open, lkey, lts)
			if bi < 0 {
				if c10Find(emitted, lkey, lts) >= 0 {
					verifFail("bucket-emitted-twice")
				} else {
					verifFail("emitted-line-without-contribution")
				}
				continue
			}
			b := open[bi]
			verifAssert(b.q <= cutoff, "emitted-only-after-wait-elapsed")
			want, ok := c10Spec(fun, b.vals, b.tss)
			found := false
			if ok {
				for _, w := range want {
					if w.name == rname {
						found = true
						if verifIsSymbolic() {
							verifAssert(verifFloatSame(lval, w.val), "emitted-value-is-function-of-contributions")
						} else {
							// natively the line carries the value rounded to six decimals
							d := lval - w.val
							verifAssert((d <= 1e-6 && d >= -1e-6) || verifFloatSame(lval, w.val), "emitted-value-is-function-of-contributions")
						}
					}
				}
			}
			verifAssert(found, "emitted-line-expected-for-function")
			for _, prev := range matched[bi] {
				verifAssert(prev != rname, "bucket-emitted-twice")
			}
			matched[bi] = append(matched[bi], rname)
		}
		// every bucket whose wait period elapsed at the tick instant was emitted completely, and closes
		var still []*c10Bucket
		for i, b := range open {
			if b.q <= cutoff {
				want, ok := c10Spec(fun, b.vals, b.tss)
				n := 0
				if ok {
					n = len(want)
				}
				verifAssert(len(matched[i]) == n, "due-bucket-emitted-exactly-once")
				emitted = append(emitted, b)
			} else {
				verifAssert(len(matched[i]) == 0, "emitted-only-after-wait-elapsed")
				still = append(still, b)
			}
		}
		open = still
	}
	c10CheckRep(a, open)
	verifCover("end")
}
