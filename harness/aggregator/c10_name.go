//go:build verif

package aggregator

import (
	"bytes"
	"regexp"
	"time"

	"github.com/grafana/carbon-relay-ng/matcher"
)

// VerifC10OutputName: the bucket a point contributes to is identified by the output format expanded with
// the capture groups of the regex match on the point's name -- nothing else of the name. Rules whose regex
// matches only part of the name (prefix-style, unanchored) and rules without capture groups included.
func VerifC10OutputName() {
	InitMetrics()
	type rule struct{ regex, outFmt string }
	rules := []rule{
		{`^raw\.([a-z]+)\.`, "agg.$1.total"},  // prefix-style: the tail of the name is not part of the match
		{`\.web[0-9]+\.`, "web.all"},          // unanchored, no capture group
		{`^raw\.([a-z]+)\.(.*)$`, "agg.$2.$1"}, // full match
		{`^([a-z]+)`, "${1}_sum"},
	}
	names := []string{"raw.abc.host1.cpu", "raw.abc.host2.cpu", "dc1.web12.requests", "raw.xy.z"}
	r := rules[verifChoice("rule", len(rules))]
	m, err := matcher.New("", "", "", "", r.regex, "")
	if err != nil {
		panic(err)
	}
	out := make(chan []byte, 16)
	tick := make(chan time.Time, 1)
	a, err := NewMocked("sum", m, r.outFmt, verifBool("cache"), 10, 20, false, out, 8, verifNow, tick)
	if err != nil {
		panic(err)
	}
	re := regexp.MustCompile(r.regex)
	wantKeys := map[string]bool{}
	for i := 0; i < 2; i++ {
		name := []byte(names[verifChoice("name", len(names))])
		a.AddMaybe([][]byte{name, []byte("1"), []byte("1499999995")}, 1, 1499999995)
		verifSettle()
		if idx := re.FindSubmatchIndex(name); idx != nil {
			wantKeys[string(re.Expand(nil, []byte(r.outFmt), name, idx))] = true
		}
	}
	tick <- time.Unix(verifClock+100, 0)
	verifSettle()
	got := map[string]bool{}
	for {
		select {
		case line := <-out:
			sp := bytes.IndexByte(line, ' ')
			if sp < 0 {
				sp = len(line)
			}
			got[string(line[:sp])] = true
			continue
		default:
		}
		break
	}
	verifAssert(len(got) == len(wantKeys), "one-output-name-per-expanded-key")
	for k := range wantKeys {
		verifAssert(got[k], "output-name-is-the-expanded-format")
	}
	verifCover("end")
}
