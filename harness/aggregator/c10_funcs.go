//go:build verif

package aggregator

// C10, harness B: the ten aggregation functions in isolation, against an independent specification
// written here (c10Spec + order-theoretic assertions). c10Spec is also the value oracle of harness A.

import (
	"math"
	"strconv"
)

// native twins of the engine-side helpers in engine/intrinsics_c10.go (verifOr/verifAnd live in rt.go)
func verifFloatSame(x, y float64) bool { return x == y || (x != x && y != y) }

// verifLineFloat / verifLineUint: the value formatted into the idx-th whitespace separated field of an
// output line. In the engine: the symbolic term behind the fmt marker.
func c10Field(line []byte, idx int) string {
	f := 0
	i := 0
	for i < len(line) {
		for i < len(line) && line[i] == ' ' {
			i++
		}
		j := i
		for j < len(line) && line[j] != ' ' {
			j++
		}
		if j > i {
			if f == idx {
				return string(line[i:j])
			}
			f++
		}
		i = j
	}
	return ""
}
func verifLineFloat(line []byte, idx int) float64 {
	x, err := strconv.ParseFloat(c10Field(line, idx), 64)
	if err != nil {
		panic("verifLineFloat: " + err.Error())
	}
	return x
}
func verifLineUint(line []byte, idx int) uint64 {
	x, err := strconv.ParseUint(c10Field(line, idx), 10, 64)
	if err != nil {
		panic("verifLineUint: " + err.Error())
	}
	return x
}

type c10Res struct {
	name string
	val  float64
}

var c10Percents = []struct {
	name string
	p    float64
}{{"p25", 25}, {"p50", 50}, {"p75", 75}, {"p90", 90}, {"p95", 95}, {"p99", 99}}

// c10Spec is the specification of the aggregation functions: the expected result(s) over the
// contributions (vals[i], tss[i]) given in arrival order; ok=false means "no line".
func c10Spec(fun string, vals []float64, tss []uint32) ([]c10Res, bool) {
	n := len(vals)
	one := func(v float64) ([]c10Res, bool) { return []c10Res{{fun, v}}, true }
	switch fun {
	case "count":
		return one(float64(n))
	case "last":
		return one(vals[n-1])
	case "sum", "avg":
		s := vals[0]
		for _, v := range vals[1:] {
			s += v
		}
		if fun == "avg" {
			s = s / float64(n)
		}
		return one(s)
	case "max", "min", "delta":
		hi, lo := vals[0], vals[0]
		for _, v := range vals[1:] {
			if v > hi {
				hi = v
			}
			if v < lo {
				lo = v
			}
		}
		switch fun {
		case "max":
			return one(hi)
		case "min":
			return one(lo)
		}
		return one(hi - lo)
	case "derive":
		// newest = greatest timestamp, oldest = least timestamp, first arrival wins ties;
		// undefined (no line) unless two distinct timestamps contributed
		in, io := 0, 0
		for i := 1; i < n; i++ {
			if tss[i] > tss[in] {
				in = i
			}
			if tss[i] < tss[io] {
				io = i
			}
		}
		if tss[in] == tss[io] {
			return nil, false
		}
		return one((vals[in] - vals[io]) / float64(tss[in]-tss[io]))
	case "stdev":
		s := vals[0]
		for _, v := range vals[1:] {
			s += v
		}
		mean := s / float64(n)
		variance := float64(0)
		for _, v := range vals {
			variance += math.Pow(v-mean, 2)
		}
		variance /= float64(n)
		return one(math.Sqrt(variance))
	case "percentiles":
		s := append([]float64(nil), vals...)
		for i := 1; i < n; i++ { // insertion sort
			for j := i; j > 0 && s[j] < s[j-1]; j-- {
				s[j], s[j-1] = s[j-1], s[j]
			}
		}
		var res []c10Res
		for _, pc := range c10Percents {
			// Hyndman-Fan R6 / NIST: rank = p/100 * (n+1); below 1 -> smallest, at or above n -> largest,
			// otherwise linear interpolation between the neighbours
			rank := (pc.p / 100) * (float64(n) + 1)
			k := int(rank)
			switch {
			case rank < 1:
				res = append(res, c10Res{pc.name, s[0]})
			case k >= n:
				res = append(res, c10Res{pc.name, s[n-1]})
			default:
				res = append(res, c10Res{pc.name, s[k-1] + (rank-float64(k))*(s[k]-s[k-1])})
			}
		}
		return res, true
	}
	panic("c10Spec: unknown function " + fun)
}

// c10Value: a finite float64 of magnitude at most 1e300 (so that sums of a few values stay finite),
// or with small=true an integer in [-8,7] converted to float64.
func c10Value(small bool) float64 {
	if small {
		b := verifByte("vi")
		verifAssume(b < 16)
		return float64(int(b) - 8)
	}
	v := verifFloat64("v")
	verifAssume(v >= -1e300)
	verifAssume(v <= 1e300)
	return v
}

// VerifC10Func: params fun, maxn ("x" per allowed value), small ("1" = small-integer values),
// extra ("1" = also the solver-heavy characterisations of stdev and percentiles).
func VerifC10Func() {
	fun := verifParam("fun")
	small := verifParam("small") == "1"
	extra := verifParam("extra") == "1"
	n := 1 + verifChoice("n", len(verifParam("maxn")))
	vals := make([]float64, n)
	tss := make([]uint32, n)
	for i := range vals {
		vals[i] = c10Value(small)
		tss[i] = verifUint32("ts")
	}
	constr, err := GetProcessorConstructor(fun)
	if err != nil {
		panic(err)
	}
	p := constr(vals[0], tss[0])
	for i := 1; i < n; i++ {
		p.Add(vals[i], tss[i])
	}
	res, ok := p.Flush()

	want, wok := c10Spec(fun, vals, tss)
	verifAssert(ok == wok, "func-emits-iff-defined")
	if fun == "derive" {
		// the property text promises one line per bucket; the function is undefined for fewer than two
		// distinct timestamps and the code (and this spec) emit nothing then
		distinct := false
		for i := 1; i < n; i++ {
			if tss[i] != tss[0] {
				distinct = true
			}
		}
		verifAssert(ok == distinct, "derive-output-iff-two-distinct-timestamps")
	}
	if !ok || !wok {
		verifCover("end")
		return
	}
	verifAssert(len(res) == len(want), "func-number-of-results")
	for _, w := range want {
		cnt := 0
		for _, r := range res {
			if r.fcnName == w.name {
				cnt++
				verifAssert(verifFloatSame(r.val, w.val), "func-value-equals-spec")
			}
		}
		verifAssert(cnt == 1, "func-one-result-per-name")
	}

	// order-theoretic characterisations, independent of the fold order
	switch fun {
	case "max", "min", "delta":
		isHi, isLo := false, false
		r := res[0].val
		for _, v := range vals {
			switch fun {
			case "max":
				verifAssert(r >= v, "max-is-upper-bound")
				isHi = verifOr(isHi, r == v)
			case "min":
				verifAssert(r <= v, "min-is-lower-bound")
				isLo = verifOr(isLo, r == v)
			}
		}
		switch fun {
		case "max":
			verifAssert(isHi, "max-is-attained")
		case "min":
			verifAssert(isLo, "min-is-attained")
		case "delta":
			// delta = hi - lo for an attained upper bound hi and an attained lower bound lo of the values:
			// the spec's hi/lo are checked order-theoretically here, the subtraction is the same operation
			hs, _ := c10Spec("max", vals, tss)
			ls, _ := c10Spec("min", vals, tss)
			hiAtt, loAtt := false, false
			for _, v := range vals {
				verifAssert(hs[0].val >= v, "delta-hi-is-upper-bound")
				verifAssert(ls[0].val <= v, "delta-lo-is-lower-bound")
				hiAtt = verifOr(hiAtt, hs[0].val == v)
				loAtt = verifOr(loAtt, ls[0].val == v)
			}
			verifAssert(hiAtt, "delta-hi-is-attained")
			verifAssert(loAtt, "delta-lo-is-attained")
			verifAssert(verifFloatSame(r, hs[0].val-ls[0].val), "delta-is-max-minus-min")
			verifAssert(r >= 0, "delta-non-negative")
		}
	case "count":
		verifAssert(res[0].val == float64(n), "count-is-number-of-points")
	case "last":
		verifAssert(verifFloatSame(res[0].val, vals[n-1]), "last-is-latest-arrival")
	case "stdev":
		if extra { // sqrt/div queries: heavy
			if n == 1 {
				verifAssert(res[0].val == 0, "stdev-of-one-value-is-zero")
			}
			verifAssert(res[0].val >= 0, "stdev-non-negative")
		}
	case "avg":
		if n == 1 {
			verifAssert(res[0].val == vals[0], "avg-of-one-value")
		}
	case "percentiles":
		// every percentile lies between the smallest and the largest value, and they are monotone in p
		var byName [6]float64
		for i, pc := range c10Percents {
			for _, r := range res {
				if r.fcnName == pc.name {
					byName[i] = r.val
				}
			}
		}
		for i := range byName {
			geAll, leAll := true, true
			for _, v := range vals {
				geAll = verifAnd(geAll, byName[i] >= v)
				leAll = verifAnd(leAll, byName[i] <= v)
			}
			if i == 0 && n <= 3 {
				// (25/100)*(n+1) <= 1 for n <= 3: p25 is the minimum
				verifAssert(leAll, "p25-is-minimum-for-n<=3")
			}
			if i == len(byName)-1 {
				verifAssert(geAll, "p99-is-maximum-for-n<=3")
			}
			if i > 0 && extra { // interpolation (fp.mul) queries: heavy
				verifAssert(byName[i] >= byName[i-1], "percentiles-monotone")
			}
		}
	}
	verifCover("end")
}
