//go:build verif

package aggregator

import (
	"regexp"
	"time"

	"github.com/grafana/carbon-relay-ng/matcher"
)

var verifClock int64 = 1500000000

func verifNow() time.Time { return time.Unix(verifClock, 0) }

func verifAsciiName(n int) []byte {
	name := verifBytes("name", n)
	for _, b := range name {
		verifAssume(b > 0x20 && b < 0x7f)
	}
	return name
}

// VerifC03Agg: an aggregation consumes a point exactly when the documented conjunction
// (prefix, notPrefix, sub, notSub, regex, notRegex) accepts its name; cache on and off.
func VerifC03Agg() {
	regex := verifParam("regex")
	notRegex := verifParam("notRegex")
	cache := verifBool("cache")
	prefix := verifString("prefix", verifChoice("plen", 2))
	notSub := verifString("notSub", verifChoice("nslen", 2))
	m, err := matcher.New(prefix, "", "", notSub, regex, notRegex)
	if err != nil {
		verifCover("compile-error")
		return
	}
	InitMetrics()
	out := make(chan []byte, 16)
	tick := make(chan time.Time)
	a, err := NewMocked("sum", m, "out", cache, 10, 20, false, out, 16, verifNow, tick)
	if err != nil {
		panic(err)
	}
	name := verifAsciiName(verifChoice("namelen", 5))
	in0 := a.numIn.Count()
	a.AddMaybe([][]byte{name, []byte("1"), []byte("1500000000")}, 1, 1500000000)
	verifSettle()
	consumed := a.numIn.Count() == in0+1

	want := true
	if len(prefix) > 0 && !(len(name) >= 1 && name[0] == prefix[0]) {
		want = false
	}
	if len(notSub) > 0 {
		for _, b := range name {
			if b == notSub[0] {
				want = false
			}
		}
	}
	if regex != "" && !regexp.MustCompile(regex).Match(name) {
		want = false
	}
	if notRegex != "" && regexp.MustCompile(notRegex).Match(name) {
		want = false
	}
	verifAssert(consumed == want, "aggregation-filter-equals-spec")
	verifCover("end")
}

// VerifC03Cache: with the match cache on, every lookup in any history of lookups (equal or different
// names) and cache-expiry ticks returns what the uncached regex match returns.
func VerifC03Cache() {
	regex := verifParam("regex")
	m, err := matcher.New("", "", "", "", regex, "")
	if err != nil {
		panic(err)
	}
	InitMetrics()
	out := make(chan []byte, 16)
	tick := make(chan time.Time, 1)
	a, err := NewMocked("sum", m, "o$1", true, 10, 1, false, out, 16, verifNow, tick)
	if err != nil {
		panic(err)
	}
	// param "maxlen": longest name (default 2; 3 lets two tagged names share the text before the first ';')
	nl := 1 + verifChoice("namelen", verifParamInt("maxlen", 2))
	for i := 0; i < 3; i++ {
		if verifBool("tick-before") {
			verifClock += int64(verifInt("advance", 0, 1000))
			tick <- verifNow()
			verifSettle()
		}
		name := verifBytes("name", nl)
		for _, b := range name {
			verifAssume(b > 0x20 && b < 0x7f)
		}
		gotKey, gotOk := a.matchWithCache(name)
		wantKey, wantOk := a.Matcher.MatchRegexAndExpand(name, a.outFmt)
		verifAssert(gotOk == wantOk, "cache-match-bit")
		if gotOk && wantOk {
			verifAssert(gotKey == wantKey, "cache-out-key")
		}
	}
	verifCover("end")
}
