//go:build verif

package aggregator

import "github.com/grafana/carbon-relay-ng/matcher"

// VerifC14AggParams: whatever interval / wait / regex an aggregation is configured with, it is either
// rejected with an error by the constructor or works: creating it, letting its goroutines run and
// feeding it one point never panics.
func VerifC14AggParams() {
	InitMetrics()
	interval := uint(verifUint16("interval"))
	wait := uint(verifUint16("wait"))
	m, err := matcher.New("", "", "", "", verifParam("regex"), "")
	if err != nil {
		return
	}
	out := make(chan []byte, 8)
	a, err := New("sum", m, "o", verifBool("cache"), interval, wait, verifBool("dropraw"), out)
	if err != nil {
		verifCover("rejected")
		return
	}
	verifSettle()
	a.AddMaybe([][]byte{[]byte("ab"), []byte("1"), []byte("1500000000")}, 1, 1500000000)
	verifSettle()
	verifCover("end")
}
