//go:build verif

package aggregator

import (
	"time"

	"github.com/grafana/carbon-relay-ng/matcher"
)

// VerifC14AggParams: whatever interval / wait / regex an aggregation is configured with, it is either
// rejected with an error by the constructor or works: creating it, letting its goroutines run and
// feeding it one point never panics.
func VerifC14AggParams() {
	InitMetrics()
	interval := uint(verifUint16("interval"))
	wait := uint(verifUint16("wait"))
	if verifParam("wide") == "1" {
		// all 64-bit values: numbers of seconds that do not fit in a time.Duration wrap around in
		// time.Duration(n)*time.Second (a multiple of 2^55 seconds becomes a tick period of exactly 0)
		interval = uint(verifUint64("interval64"))
		wait = uint(verifUint64("wait64"))
	}
	m, err := matcher.New("", "", "", "", verifParam("regex"), "")
	if err != nil {
		return
	}
	out := make(chan []byte, 8)
	a, err := New("sum", m, "o", verifBool("cache"), interval, wait, verifBool("dropraw"), out)
	if err != nil {
		verifCover("rejected")
		return
	}
	verifSettle()
	a.AddMaybe([][]byte{[]byte("ab"), []byte("1"), []byte("1500000000")}, 1, 1500000000)
	verifSettle()
	verifCover("end")
}

// VerifC14AggTraffic: no sequence of up to two points with arbitrary timestamps (fresh, old, far future),
// a flush tick and a shutdown can crash the aggregation worker.
func VerifC14AggTraffic() {
	InitMetrics()
	m, err := matcher.New("", "", "", "", "^a(.*)", "")
	if err != nil {
		return
	}
	out := make(chan []byte, 16)
	tick := make(chan time.Time, 1)
	a, err := NewMocked(verifParam("fun"), m, "o.$1", verifBool("cache"), 10, 20, false, out, 8, verifNow, tick)
	if err != nil {
		return
	}
	n := 1 + verifChoice("npoints", 2)
	for i := 0; i < n; i++ {
		ts := verifUint32("ts")
		a.AddMaybe([][]byte{[]byte("ab"), []byte("1"), []byte("0")}, 1, ts)
		verifSettle()
		if verifBool("tick") {
			tick <- time.Unix(verifClock+int64(verifUint16("tickoffset")), 0)
			verifSettle()
		}
	}
	tick <- time.Unix(verifClock+100, 0)
	verifSettle()
	a.Shutdown()
	verifCover("end")
}
