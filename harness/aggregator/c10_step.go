//go:build verif

package aggregator

// C10, harness C: one-step induction for "a bucket is never emitted twice" and "flushes are complete and
// ordered", from an arbitrary pre-state with at most two open first-level buckets (times key subsets of
// {a,b}) that satisfies the invariant
//
//	Inv: tsList strictly ascending = key set of aggregations; every open bucket (one that holds a
//	     processor) has start >= cutExcl;
//	     cutExcl <= now-Wait+1, where cutExcl-1 is the cutoff of the latest flush (everything below
//	     cutExcl may already have been emitted, nothing at or above it has).
//
// One arbitrary event (point or tick) re-establishes Inv, never emits below cutExcl, emits exactly the
// due buckets with their accumulated value, and keeps the ghost relation (aggregator state = ghost state).
// Bucket starts of the pre-state are arbitrary (a superset of the reachable multiples of Interval).

import (
	"bytes"
	"math"
	"strings"
	"time"

	"github.com/grafana/carbon-relay-ng/matcher"
)

type c10Acc struct {
	key string
	q   uint
	acc float64 // value accumulated so far by "sum"
}

func c10FindAcc(l []*c10Acc, key string, q uint) int {
	for i, b := range l {
		if b.key == key && b.q == q {
			return i
		}
	}
	return -1
}

// c10StepRep: representation invariant + ghost relation + every open bucket at or above cutExcl.
func c10StepRep(a *Aggregator, open []*c10Acc, cutExcl uint) {
	verifAssert(len(a.tsList) == len(a.aggregations), "step-invariant-tslist-lists-open-buckets")
	nstate := 0
	for i, q := range a.tsList {
		if i > 0 {
			verifAssert(a.tsList[i-1] < q, "step-invariant-tslist-strictly-ascending")
		}
		agg, ok := a.aggregations[q]
		if !ok {
			verifFail("step-invariant-tslist-lists-open-buckets")
			continue
		}
		if len(agg.state) > 0 { // (a too-old point leaves an empty first-level bucket behind: it never emits)
			verifAssert(q >= cutExcl, "step-invariant-open-bucket-above-last-cutoff")
		}
		nstate += len(agg.state)
	}
	verifAssert(nstate == len(open), "step-ghost-relation-same-buckets")
	for _, b := range open {
		agg, ok := a.aggregations[b.q]
		if !ok {
			verifFail("step-ghost-relation-same-buckets")
			continue
		}
		p, ok := agg.state[b.key]
		if !ok {
			verifFail("step-ghost-relation-same-buckets")
			continue
		}
		verifAssert(verifFloatSame(p.(*Sum).sum, b.acc), "step-ghost-relation-same-value")
	}
}

// VerifC10Step. params: intervals, waits ("sym" or candidate list), maxopen (one "x" per open bucket).
func VerifC10Step() {
	interval := c10Pick("interval", verifParam("intervals"))
	wait := c10Pick("wait", verifParam("waits"))
	verifAssume(interval != 0)
	c10Clock = int64(verifUint32("clock0"))
	verifAssume(uint(c10Clock) >= wait)
	cutExcl := uint(verifUint32("cutexcl"))
	verifAssume(cutExcl <= uint(c10Clock)-wait+1)

	m, err := matcher.New("", "", "", "", c10Regex, "")
	if err != nil {
		panic(err)
	}
	InitMetrics()
	rangeTracker.Sample(0)
	rangeTracker.Sample(math.MaxUint32)
	out := make(chan []byte, 64)
	tick := make(chan time.Time, 1)
	a, err := NewMocked("sum", m, "$1", false, interval, wait, false, out, 16, c10Now, tick)
	if err != nil {
		panic(err)
	}

	// ---- arbitrary pre-state satisfying Inv (run() is parked in its select)
	var open []*c10Acc
	nb := verifChoice("open", 1+len(verifParam("maxopen")))
	var prev uint
	for i := 0; i < nb; i++ {
		q := uint(verifUint32("q"))
		keys := verifChoice("keys", 4) // {}, {a}, {b}, {a,b}; {} = left behind by a too-old point
		if keys > 0 {
			verifAssume(q >= cutExcl)
		}
		if i > 0 {
			verifAssume(q > prev)
		}
		prev = q
		agg := &aggregation{state: make(map[string]Processor)}
		if keys == 1 || keys == 3 {
			acc := verifFloat64("acc")
			agg.state["a"] = &Sum{sum: acc}
			agg.count++
			open = append(open, &c10Acc{"a", q, acc})
		}
		if keys >= 2 {
			acc := verifFloat64("acc")
			agg.state["b"] = &Sum{sum: acc}
			agg.count++
			open = append(open, &c10Acc{"b", q, acc})
		}
		a.aggregations[q] = agg
		a.tsList = append(a.tsList, q)
	}

	// ---- one event
	c10Clock += int64(verifUint16("advance"))
	now := uint(c10Clock)
	tooOld0 := numTooOld.Count()
	if kind := verifChoice("event", 3); kind > 0 {
		name := c10Names[kind-1]
		key := name[:1]
		ts := verifUint32("ts")
		val := verifFloat64("v")
		a.AddMaybe([][]byte{[]byte(name), []byte("0"), []byte("0")}, val, ts)
		verifSettle()
		dOld := numTooOld.Count() - tooOld0
		verifAssert(len(out) == 0, "step-no-output-outside-flush")
		q := uint(ts) - uint(ts)%interval
		oi := c10FindAcc(open, key, q)
		contributes := false
		if q < cutExcl {
			// possibly emitted already: it must not be re-opened
			verifAssert(dOld == 1, "step-point-below-last-cutoff-counted-too-old")
		} else if q > now-wait {
			verifAssert(dOld == 0, "step-point-for-open-bucket-not-dropped")
			contributes = true
		} else if dOld == 0 {
			verifAssert(oi >= 0, "step-late-point-neither-counted-nor-contributing")
			contributes = true
		} else {
			verifAssert(dOld == 1, "step-too-old-counter-steps-by-one")
		}
		if contributes {
			if oi < 0 {
				open = append(open, &c10Acc{key, q, val})
			} else {
				open[oi].acc += val
			}
		}
		c10StepRep(a, open, cutExcl)
		verifCover("end")
		return
	}

	// tick: instants never decrease, so its cutoff is at least the previous one
	T := uint(verifUint32("tick"))
	verifAssume(T <= now)
	verifAssume(T >= wait)
	cutoff := T - wait
	verifAssume(cutoff+1 >= cutExcl)
	tick <- time.Unix(int64(T), 0)
	verifSettle()
	verifAssert(numTooOld.Count() == tooOld0, "step-tick-does-not-count-too-old")
	matched := make([]int, len(open))
	var prevTs uint
	nlines := len(out)
	for li := 0; li < nlines; li++ {
		line := <-out
		sp := bytes.IndexByte(line, ' ')
		if sp < 0 {
			verifFail("step-line-has-three-fields")
			continue
		}
		lkey := string(line[:sp])
		lval := verifLineFloat(line, 1)
		lts := uint(verifLineUint(line, 2))
		verifAssert(lts >= cutExcl, "step-never-emits-at-or-below-previous-cutoff")
		if li > 0 {
			verifAssert(lts >= prevTs, "step-flush-in-ascending-bucket-order")
		}
		prevTs = lts
		bi := c10FindAcc(open, strings.TrimSpace(lkey), lts)
		if bi < 0 {
			verifFail("step-emitted-line-without-open-bucket")
			continue
		}
		verifAssert(open[bi].q <= cutoff, "step-emitted-only-after-wait-elapsed")
		if verifIsSymbolic() {
			verifAssert(verifFloatSame(lval, open[bi].acc), "step-emitted-value-is-accumulated-value")
		} else {
			d := lval - open[bi].acc
			verifAssert((d <= 1e-6 && d >= -1e-6) || verifFloatSame(lval, open[bi].acc), "step-emitted-value-is-accumulated-value")
		}
		matched[bi]++
	}
	var still []*c10Acc
	for i, b := range open {
		if b.q <= cutoff {
			verifAssert(matched[i] == 1, "step-due-bucket-emitted-exactly-once")
		} else {
			verifAssert(matched[i] == 0, "step-emitted-only-after-wait-elapsed")
			still = append(still, b)
		}
	}
	c10StepRep(a, still, cutoff+1)
	verifCover("end")
}
