//go:build verif

package route

import (
	dest "github.com/grafana/carbon-relay-ng/destination"
	"github.com/grafana/carbon-relay-ng/matcher"
)

// verifOptMatcher: a matcher with exactly one of the four literal options set to a one-byte symbolic string.
func verifOptMatcher(tag string) matcher.Matcher {
	s := verifString(tag+".opt", 1)
	var m matcher.Matcher
	var err error
	switch verifChoice(tag+".which", 4) {
	case 0:
		m, err = matcher.New(s, "", "", "", "", "")
	case 1:
		m, err = matcher.New("", s, "", "", "", "")
	case 2:
		m, err = matcher.New("", "", s, "", "", "")
	default:
		m, err = matcher.New("", "", "", s, "", "")
	}
	if err != nil {
		panic(err)
	}
	return m
}

// VerifC03DestName: the destination filter inside a carbon route decides on the metric name only:
// value and timestamp tokens are symbolic and must not influence the decision.
func VerifC03DestName() {
	first := verifBool("firstmatch")
	d := verifSinkDest(verifOptMatcher("dest"), "127.0.0.1:2003")
	rm, _ := matcher.New("", "", "", "", "", "")
	name := verifNameBytes(1 + verifChoice("namelen", 2))
	val := verifNameBytes2("val", 1)
	ts := verifNameBytes2("ts", 1)
	line := append([]byte{}, name...)
	line = append(line, ' ')
	line = append(line, val...)
	line = append(line, ' ')
	line = append(line, ts...)
	var r Route
	if first {
		r = verifFirstMatch(rm, []*dest.Destination{d})
	} else {
		r = verifAllMatch(rm, []*dest.Destination{d})
	}
	r.Dispatch(line)
	got := verifDrain(d)
	want := d.Matcher.Match(name)
	verifAssert((len(got) == 1) == want, "dest-filter-on-name-only")
	verifCover("end")
}

func verifNameBytes2(tag string, n int) []byte {
	b := verifBytes(tag, n)
	for _, c := range b {
		verifAssume(c > 0x20 && c < 0x7f)
	}
	return b
}
