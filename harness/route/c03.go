//go:build verif

package route

import (
	"bytes"
	"regexp"

	dest "github.com/grafana/carbon-relay-ng/destination"
	"github.com/grafana/carbon-relay-ng/matcher"
)

// verifOptMatcher: a matcher with exactly one of the four literal options set to a one-byte symbolic string.
func verifOptMatcher(tag string) matcher.Matcher {
	s := verifString(tag+".opt", 1)
	var m matcher.Matcher
	var err error
	switch verifChoice(tag+".which", 4) {
	case 0:
		m, err = matcher.New(s, "", "", "", "", "")
	case 1:
		m, err = matcher.New("", s, "", "", "", "")
	case 2:
		m, err = matcher.New("", "", s, "", "", "")
	default:
		m, err = matcher.New("", "", "", s, "", "")
	}
	if err != nil {
		panic(err)
	}
	return m
}

// VerifC03DestName: the destination filter inside a carbon route decides on the metric name only:
// value and timestamp tokens are symbolic and must not influence the decision.
func VerifC03DestName() {
	first := verifBool("firstmatch")
	d := verifSinkDest(verifOptMatcher("dest"), "127.0.0.1:2003")
	rm, _ := matcher.New("", "", "", "", "", "")
	name := verifNameBytes(1 + verifChoice("namelen", 2))
	val := verifNameBytes2("val", 1)
	ts := verifNameBytes2("ts", 1)
	line := append([]byte{}, name...)
	line = append(line, ' ')
	line = append(line, val...)
	line = append(line, ' ')
	line = append(line, ts...)
	var r Route
	if first {
		r = verifFirstMatch(rm, []*dest.Destination{d})
	} else {
		r = verifAllMatch(rm, []*dest.Destination{d})
	}
	r.Dispatch(line)
	got := verifDrain(d)
	want := d.Matcher.Match(name)
	verifAssert((len(got) == 1) == want, "dest-filter-on-name-only")
	verifCover("end")
}

func verifNameBytes2(tag string, n int) []byte {
	b := verifBytes(tag, n)
	for _, c := range b {
		verifAssume(c > 0x20 && c < 0x7f)
	}
	return b
}

// VerifC03UpdatedFilter: a filter changed at runtime (modRoute / modDest -> baseRoute.Update /
// Destination.Update) means exactly the documented conjunction of its options *as they are after the change*:
// an option set to a new value uses the new value, an option set to the empty string imposes no constraint
// any more, an option not named keeps its old value. The route / destination starts with all six options
// set; up to two of them are changed (cleared or replaced), which ones is chosen by the solver; the decision
// on a free name of 1..3 bytes is compared with the conjunction written out here (regular expressions through
// the regexp package itself, not through the matcher).
func VerifC03UpdatedFilter() {
	names := []string{"prefix", "notPrefix", "sub", "notSub", "regex", "notRegex"}
	cur := []string{"a", "ax", "b", "bb", "^ab", "c$"}
	repl := []string{"b", "bx", "c", "cc", "b$", "^c"}
	m0, err := matcher.New(cur[0], cur[1], cur[2], cur[3], cur[4], cur[5])
	if err != nil {
		panic(err)
	}
	opts := map[string]string{}
	changed := 0
	for i := range names {
		if changed >= 2 {
			break
		}
		switch verifChoice(names[i], 3) {
		case 1:
			opts[names[i]] = ""
			cur[i] = ""
			changed++
		case 2:
			opts[names[i]] = repl[i]
			cur[i] = repl[i]
			changed++
		}
	}
	name := verifNameBytes(1 + verifChoice("namelen", 3))
	var got bool
	if verifParam("where") == "dest" {
		d := verifSinkDest(m0, "127.0.0.1:2003")
		verifAssert(d.Update(opts) == nil, "update-accepted")
		got = d.Match(name)
	} else {
		all, _ := matcher.New("", "", "", "", "", "")
		r := verifAllMatch(m0, []*dest.Destination{verifSinkDest(all, "127.0.0.1:2003")})
		verifAssert(r.Update(opts) == nil, "update-accepted")
		got = r.Match(name)
	}
	want := true
	if !bytes.HasPrefix(name, []byte(cur[0])) {
		want = false
	}
	if cur[1] != "" && bytes.HasPrefix(name, []byte(cur[1])) {
		want = false
	}
	if !bytes.Contains(name, []byte(cur[2])) {
		want = false
	}
	if cur[3] != "" && bytes.Contains(name, []byte(cur[3])) {
		want = false
	}
	if cur[4] != "" && !regexp.MustCompile(cur[4]).Match(name) {
		want = false
	}
	if cur[5] != "" && regexp.MustCompile(cur[5]).Match(name) {
		want = false
	}
	verifAssert(got == want, "changed-filter-means-the-conjunction-of-its-new-options")
	verifCover("end")
}
