//go:build verif

package route

import (
	"sync"
	"sync/atomic"
	"time"

	dest "github.com/grafana/carbon-relay-ng/destination"
	"github.com/grafana/carbon-relay-ng/matcher"
)

func verifPrefixMatcher(tag string) matcher.Matcher {
	prefix := verifString(tag+".prefix", 1)
	m, err := matcher.New(prefix, "", "", "", "", "")
	if err != nil {
		panic(err)
	}
	return m
}

// verifSinkDest builds a real Destination that is not running: its In channel is a buffered sink the
// harness reads back, so the route's Dispatch can be observed without sockets.
func verifSinkDest(m matcher.Matcher, addr string) *dest.Destination {
	d, err := dest.New("route", m, addr, "/tmp/verif-spool", false, false, time.Second, time.Second, 10, 100, 10, 1000, 10, time.Second, time.Millisecond, time.Millisecond)
	if err != nil {
		panic(err)
	}
	d.In = make(chan []byte, 8)
	return d
}

func verifDrain(d *dest.Destination) [][]byte {
	var r [][]byte
	for {
		select {
		case b := <-d.In:
			r = append(r, b)
		default:
			return r
		}
	}
}

func verifAllMatch(m matcher.Matcher, dests []*dest.Destination) *SendAllMatch {
	r := &SendAllMatch{baseRoute{sync.Mutex{}, atomic.Value{}, "all"}}
	r.config.Store(baseConfig{m, dests})
	return r
}

func verifFirstMatch(m matcher.Matcher, dests []*dest.Destination) *SendFirstMatch {
	r := &SendFirstMatch{baseRoute{sync.Mutex{}, atomic.Value{}, "first"}}
	r.config.Store(baseConfig{m, dests})
	return r
}

func verifNameBytes(n int) []byte {
	name := verifBytes("name", n)
	for _, b := range name {
		verifAssume(b > 0x20 && b < 0x7f)
	}
	return name
}
