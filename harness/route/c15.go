//go:build verif

package route

import (
	"crypto/md5"
	"fmt"
	"sort"
	"strconv"
	"time"

	dest "github.com/grafana/carbon-relay-ng/destination"
	"github.com/grafana/carbon-relay-ng/matcher"
	"github.com/grafana/carbon-relay-ng/stats"
)

// C15 — consistent hashing agrees with Carbon and moves only the keys it must.
//
// In the engine crypto/md5.Sum of a symbolic input is an uninterpreted function, so ring positions are
// arbitrary 16-bit values (every collision / tie pattern). The behaviour of the ring depends on the
// positions only through their relative order and ties, so a counterexample is replayed natively by
// searching for host / instance / metric strings whose real MD5 positions are order-isomorphic to the
// solver's (verifC15World.realize, verifC15KeyNear).

// verifC15Pos: Carbon's ring position of a key: first two digest bytes, big-endian.
func verifC15Pos(b []byte) uint16 {
	d := md5.Sum(b)
	return uint16(d[0])<<8 | uint16(d[1])
}

// verifC15Text: Python's repr of the tuple (server, instance) followed by ":" and the replica number,
// as carbon.hashing.ConsistentHashRing.add_node builds it.
func verifC15Text(host, inst string, i int) []byte {
	s := "('" + host + "', "
	if inst != "" {
		s += "'" + inst + "'"
	} else {
		s += "None"
	}
	return []byte(s + "):" + strconv.Itoa(i))
}

// verifC15Name: host / instance text: n bytes out of [.0-9A-Za-z] (Carbon hashes the text as the operator wrote it, upper case included: C15h; no quote, no colon, no backslash: Python's
// repr would quote differently; all above '-' which the native realisation uses as suffix separator).
func verifC15Name(tag string, n int) string {
	s := verifString(tag, n)
	for i := 0; i < n; i++ {
		c := s[i]
		verifAssume(verifOr(verifOr(c == '.', verifAnd(c >= 'A', c <= 'Z')), verifOr(verifAnd(c >= '0', c <= '9'), verifAnd(c >= 'a', c <= 'z'))))
	}
	return s
}

func verifC15IntParam(name string, def int) int {
	if p := verifParam(name); p != "" {
		n, err := strconv.Atoi(p)
		if err != nil {
			panic(err)
		}
		return n
	}
	return def
}

// ---------------------------------------------------------------------------------------------
// (1) computeRingPosition = first two digest bytes, big-endian, for an arbitrary digest.
func VerifC15RingPosition() {
	key := verifBytes("key", verifChoice("keylen", 5))
	verifAssert(computeRingPosition(key) == verifC15Pos(key), "position-is-first-two-digest-bytes-big-endian")
	// the position is a function of the name alone: a free name that happens to spell "a" lands where "a" lands
	if len(key) == 1 {
		pa := computeRingPosition([]byte("a"))
		verifAssert(verifOr(key[0] != 'a', computeRingPosition(key) == pa), "position-depends-on-the-name-only")
	}
	verifCover("end")
}

// (2) replica key text: AddDestination hashes exactly "('host', 'inst'):i" / "('host', None):i", records host
// (without port), instance and destination index in every ring entry.
func VerifC15ReplicaKey() {
	host := verifC15Name("host", 1+verifChoice("hostlen", verifC15IntParam("maxhost", 2)))
	inst := verifC15Name("inst", verifChoice("instlen", 3))
	addr := host
	if verifChoice("port", 2) == 1 {
		addr = host + ":2003"
	}
	R := 1 + verifChoice("replicas", verifC15IntParam("maxreplicas", 2))
	other := &dest.Destination{Addr: "zz:1", Instance: ""}
	d := &dest.Destination{Addr: addr, Instance: inst}
	h := ConsistentHasher{replicaCount: R, destinations: []*dest.Destination{other, other}}
	h.AddDestination(d) // becomes destination index 2
	verifAssert(len(h.Ring) == R, "one-ring-entry-per-replica")
	for i := 0; i < R; i++ {
		want := verifC15Pos(verifC15Text(host, inst, i))
		found := false
		for _, e := range h.Ring {
			hit := verifAnd(verifAnd(e.Position == want, e.Hostname == host), verifAnd(e.Instance == inst, e.DestinationIndex == 2))
			found = verifOr(found, hit)
		}
		verifAssert(found, "replica-key-text-host-instance-index")
	}
	verifCover("end")
}

// (2a) every distinct (host, instance) pair is a node of its own: two destinations with free host (1..2 bytes) and
// instance (0..1 bytes) texts that differ as PAIRS (they may share the host, or agree once host and instance are
// written one after the other: ("ab", "") and ("a", "b")) each get their replicas on the ring, under their own key text.
func VerifC15TwoNodes() {
	var ds []*dest.Destination
	var hosts, insts []string
	for i := 0; i < 2; i++ {
		tag := string(rune('0' + i))
		h := verifC15Name("host"+tag, 1+verifChoice("hostlen"+tag, 2))
		in := verifC15Name("inst"+tag, verifChoice("instlen"+tag, 2))
		hosts, insts = append(hosts, h), append(insts, in)
		ds = append(ds, &dest.Destination{Addr: h + ":2003", Instance: in})
	}
	verifAssume(verifOr(hosts[0] != hosts[1], insts[0] != insts[1]))
	R := 1 + verifChoice("replicas", verifC15IntParam("maxreplicas", 1))
	h := NewConsistentHasherReplicaCount(ds, R)
	verifAssert(len(h.Ring) == 2*R, "every-distinct-host-instance-pair-has-its-replicas-on-the-ring")
	for di := 0; di < 2; di++ {
		for i := 0; i < R; i++ {
			want := verifC15Pos(verifC15Text(hosts[di], insts[di], i))
			found := false
			for _, e := range h.Ring {
				hit := verifAnd(verifAnd(e.Position == want, e.Hostname == hosts[di]), verifAnd(e.Instance == insts[di], e.DestinationIndex == di))
				found = verifOr(found, hit)
			}
			verifAssert(found, "replica-key-text-host-instance-index")
		}
	}
	verifCover("end")
}

// (2b) the production constructor uses 100 replicas numbered 0..99 in decimal.
func VerifC15Replicas100() {
	d0 := &dest.Destination{Addr: "10.0.0.1:2003", Instance: "a"}
	d1 := &dest.Destination{Addr: "graphite-2", Instance: ""}
	h := NewConsistentHasher([]*dest.Destination{d0, d1})
	verifAssert(h.replicaCount == 100, "hundred-replicas")
	verifAssert(len(h.Ring) == 200, "ring-has-100-entries-per-destination")
	ok := len(h.Ring) == 200
	for di, hi := range [][2]string{{"10.0.0.1", "a"}, {"graphite-2", ""}} {
		for i := 0; i < 100 && ok; i++ {
			want := verifC15Pos(verifC15Text(hi[0], hi[1], i))
			found := false
			for _, e := range h.Ring {
				if e.Position == want && e.Hostname == hi[0] && e.Instance == hi[1] && e.DestinationIndex == di {
					found = true
				}
			}
			verifAssert(found, "replica-0-to-99-present")
		}
	}
	for i := 0; i+1 < len(h.Ring); i++ {
		verifAssert(!verifC15TupleLess(h.Ring[i+1], h.Ring[i]), "ring-sorted-in-carbon-tuple-order")
	}
	verifCover("end")
}

// verifC15TupleLess: Python's order of (position, (server, instance)) with None before every string.
func verifC15TupleLess(a, b hashRingEntry) bool {
	instLess := verifOr(verifAnd(a.Instance == "", b.Instance != ""), verifAnd(a.Instance != "", verifAnd(b.Instance != "", a.Instance < b.Instance)))
	hostLess := verifOr(a.Hostname < b.Hostname, verifAnd(a.Hostname == b.Hostname, instLess))
	return verifOr(a.Position < b.Position, verifAnd(a.Position == b.Position, hostLess))
}

// verifC15KeyNear returns a metric name whose ring position compares to every position in ring exactly as
// the returned position does. Engine: symbolic name, position bound to the named variable "keypos".
// Native: search for a name whose real MD5 position has the same relations.
func verifC15KeyNear(ring []uint16) ([]byte, uint16) {
	n := 1 + verifChoice("keylen", 2)
	key := verifBytes("key", n)
	kp := verifUint16("keypos")
	if verifIsSymbolic() {
		for _, b := range key {
			verifAssume(verifAnd(b > 0x20, b < 0x7f))
		}
		verifAssume(verifC15Pos(key) == kp)
		return key, kp
	}
	rel := func(a, b uint16) int {
		switch {
		case a < b:
			return -1
		case a > b:
			return 1
		}
		return 0
	}
	for c := 0; c < 1<<24; c++ {
		k := []byte("k" + strconv.Itoa(c))
		p := verifC15Pos(k)
		same := true
		for _, r := range ring {
			if rel(p, r) != rel(kp, r) {
				same = false
				break
			}
		}
		if same {
			return k, p
		}
	}
	fmt.Println("VERIF-C15 native realisation gave up (key)")
	verifAssume(false)
	return nil, 0
}

// (3) GetDestinationIndex on an arbitrary sorted ring = first entry at or after the key's position, else
// entry 0 (linear-scan reference of Carbon's bisect_left + wrap-around).
func VerifC15Lookup() {
	n := 1 + verifChoice("ringlen", verifC15IntParam("maxring", 6))
	ring := make(hashRing, n)
	pos := make([]uint16, n)
	for i := range ring {
		pos[i] = verifUint16("pos")
		ring[i] = hashRingEntry{Position: pos[i], Hostname: "h", DestinationIndex: i}
		if i > 0 {
			verifAssume(pos[i-1] <= pos[i])
		}
	}
	key, kp := verifC15KeyNear(pos)
	h := ConsistentHasher{Ring: ring, replicaCount: 1}
	got := h.GetDestinationIndex(key)
	want := 0
	seen := false
	for i := 0; i < n; i++ {
		if pos[i] >= kp {
			if !seen {
				want = i
			}
			seen = true
		}
	}
	verifAssert(got == want, "first-entry-at-or-after-key-else-wrap-to-first")
	verifAssert(got >= 0 && got < n, "index-in-range")
	verifCover("end")
}

// ---------------------------------------------------------------------------------------------
// worlds of destinations with free ring positions

type verifC15Spec struct {
	host, inst string
	pos        []uint16 // ring position of every replica (the solver's choice)
}

type verifC15World struct {
	R      int
	specs  []verifC15Spec
	key    []byte
	keyPos uint16
	dests  []*dest.Destination
}

// verifC15MakeWorld: nd destinations with pairwise distinct (host, instance). Host names are concrete
// (param "hosts", one letter per destination, e.g. "ab" or "aa" for two instances on one server), the
// instance is absent or one free byte (free choice per destination, or fixed by param "insts"), every replica position is free (MD5 uninterpreted on every input;
// bound to the named variables "ringpos"), and one metric name with a free position.
func verifC15MakeWorld(nd, R int) *verifC15World {
	verifMD5Uninterpreted()
	w := &verifC15World{R: R}
	hosts := verifParam("hosts")
	if hosts == "" {
		hosts = "abcd"
	}
	for d := 0; d < nd; d++ {
		s := verifC15Spec{}
		s.host = "h" + hosts[d:d+1]
		if insts := verifParam("insts"); insts != "" { // fixed presence pattern, e.g. "010"
			s.inst = verifC15Name("inst", int(insts[d]-'0'))
		} else {
			s.inst = verifC15Name("inst", verifChoice("instlen", 2))
		}
		for e := 0; e < d; e++ {
			if w.specs[e].host == s.host {
				verifAssume(w.specs[e].inst != s.inst)
			}
		}
		for r := 0; r < R; r++ {
			p := verifUint16("ringpos")
			if verifIsSymbolic() {
				verifAssume(verifC15Pos(verifC15Text(s.host, s.inst, r)) == p)
			}
			s.pos = append(s.pos, p)
		}
		w.specs = append(w.specs, s)
	}
	w.key = []byte("some.metric")
	w.keyPos = verifUint16("keypos")
	if verifIsSymbolic() {
		verifAssume(verifC15Pos(w.key) == w.keyPos)
	} else {
		w.realize()
	}
	for _, s := range w.specs {
		addr := s.host + ":2003"
		w.dests = append(w.dests, &dest.Destination{Addr: addr, Instance: s.inst})
	}
	return w
}

// verifMD5Uninterpreted (engine): md5.Sum becomes an uninterpreted function on concrete inputs too.
func verifMD5Uninterpreted() {}

// realize (native replay only): replace hosts, instances and the metric name by strings whose real MD5
// positions are order-isomorphic (same order, same ties) to the solver's positions, keeping the order of
// the host names and of the instances (suffix "-<n>", '-' sorts below every allowed character).
func (w *verifC15World) realize() {
	var vals []int
	seen := map[uint16]bool{}
	add := func(p uint16) {
		if !seen[p] {
			seen[p] = true
			vals = append(vals, int(p))
		}
	}
	for _, s := range w.specs {
		for _, p := range s.pos {
			add(p)
		}
	}
	add(w.keyPos)
	sort.Ints(vals)
	rank := map[uint16]int{}
	for i, v := range vals {
		rank[uint16(v)] = i
	}
	width := 65536 / len(vals)
	fixed := map[uint16]uint16{}
	fits := func(tent map[uint16]uint16, m, v uint16) bool {
		if f, ok := fixed[m]; ok {
			return v == f
		}
		if f, ok := tent[m]; ok {
			return v == f
		}
		b := int(v) / width
		if b >= len(vals) {
			b = len(vals) - 1
		}
		return b == rank[m]
	}
	const limit = 1 << 23
	order := []int{}
	for i, s := range w.specs {
		if s.inst == "" {
			order = append(order, i)
		}
	}
	for i, s := range w.specs {
		if s.inst != "" {
			order = append(order, i)
		}
	}
	suffix := map[string]string{}
	for _, di := range order {
		s := &w.specs[di]
		found := false
		for c := 0; c < limit && !found; c++ {
			host, inst := s.host, s.inst
			suf, shared := suffix[s.host]
			if shared {
				host += suf
				inst += "-" + strconv.Itoa(c)
			} else {
				suf = "-" + strconv.Itoa(c)
				host += suf
			}
			tent := map[uint16]uint16{}
			ok := true
			for r, m := range s.pos {
				v := verifC15Pos(verifC15Text(host, inst, r))
				if !fits(tent, m, v) {
					ok = false
					break
				}
				tent[m] = v
			}
			if ok {
				for m, v := range tent {
					fixed[m] = v
				}
				suffix[s.host] = suf
				s.host, s.inst = host, inst
				found = true
			}
		}
		if !found {
			fmt.Println("VERIF-C15 native realisation gave up (destination)")
			verifAssume(false)
		}
	}
	for c := 0; ; c++ {
		if c == limit {
			fmt.Println("VERIF-C15 native realisation gave up (key)")
			verifAssume(false)
		}
		k := []byte("k" + strconv.Itoa(c))
		if fits(nil, w.keyPos, verifC15Pos(k)) {
			w.key = k
			break
		}
	}
}

func (w *verifC15World) hasher(idx []int) ConsistentHasher {
	var ds []*dest.Destination
	for _, i := range idx {
		ds = append(ds, w.dests[i])
	}
	return NewConsistentHasherReplicaCount(ds, w.R)
}

func (w *verifC15World) pick(h *ConsistentHasher) *dest.Destination {
	return h.destinations[h.GetDestinationIndex(w.key)]
}

var verifC15Perms = map[int][][]int{
	2: {{1, 0}},
	3: {{0, 2, 1}, {1, 0, 2}, {1, 2, 0}, {2, 0, 1}, {2, 1, 0}},
}

func verifC15Iota(n int) []int {
	r := make([]int, n)
	for i := range r {
		r[i] = i
	}
	return r
}

// (4) order independence: the same destinations listed in two different orders give the same ring (as a
// sequence of (position, host, instance)), sorted in Carbon's tuple order, hence the same destination for
// every key.
func VerifC15OrderIndependent() {
	nd := verifC15IntParam("ndests", 2)
	w := verifC15MakeWorld(nd, verifC15IntParam("replicas", 1))
	hA := w.hasher(verifC15Iota(nd))
	verifAssert(len(hA.Ring) == nd*w.R, "ring-length")
	for i := 1; i < len(hA.Ring); i++ {
		verifAssert(!verifC15TupleLess(hA.Ring[i], hA.Ring[i-1]), "ring-sorted-in-carbon-tuple-order")
	}
	cA := w.pick(&hA)
	// every other listing order, on the same path (the second ring's order is implied by the first's)
	for _, perm := range verifC15Perms[nd] {
		hB := w.hasher(perm)
		verifAssert(len(hB.Ring) == nd*w.R, "ring-length")
		if len(hB.Ring) != len(hA.Ring) {
			continue
		}
		for i := range hA.Ring {
			a, b := hA.Ring[i], hB.Ring[i]
			verifAssert(verifAnd(a.Position == b.Position, verifAnd(a.Hostname == b.Hostname, a.Instance == b.Instance)), "same-ring-in-any-listing-order")
			verifAssert(hA.destinations[a.DestinationIndex] == hB.destinations[b.DestinationIndex], "ring-entry-points-to-same-destination")
		}
		verifAssert(w.pick(&hB) == cA, "same-destination-in-any-listing-order")
	}
	verifCover("end")
}

// (5) minimal disruption at hasher level (the ring is rebuilt from the destination list on every change,
// route.go consistentHashingConfigExtender): adding D moves a key only to D; removing a destination moves
// only the keys it owned.
func VerifC15Disruption() {
	nd := verifC15IntParam("ndests", 2) // before the addition
	w := verifC15MakeWorld(nd+1, verifC15IntParam("replicas", 1))
	all := verifC15Iota(nd + 1)
	h0 := w.hasher(all[:nd])
	h1 := w.hasher(all)
	c0, c1 := w.pick(&h0), w.pick(&h1)
	D := w.dests[nd]
	verifAssert(c1 == c0 || c1 == D, "add-moves-keys-only-to-the-new-destination")
	// removal of any one destination from the enlarged list (index shift included), on the same path
	for j := 0; j <= nd; j++ {
		var rest []int
		for _, i := range all {
			if i != j {
				rest = append(rest, i)
			}
		}
		h2 := w.hasher(rest)
		c2 := w.pick(&h2)
		verifAssert(c2 == c1 || c1 == w.dests[j], "remove-moves-only-keys-of-the-removed-destination")
	}
	verifCover("end")
}

// ---------------------------------------------------------------------------------------------
// (5, route level) the real ConsistentHashing route: construction, Add and DelDestination keep the hasher
// in step with the destination list (100 replicas each, entries pointing at the right destination), and
// Dispatch hands each line to exactly the destination the ring names, before and after every change.
// Concrete addresses (real MD5), symbolic or concrete metric name (param "key").

func verifC15RouteCheck(r *ConsistentHashing, want []*dest.Destination, tag string) {
	conf := r.config.Load().(consistentHashingConfig)
	ds := conf.Dests()
	verifAssert(len(ds) == len(want), tag+":route-destination-list")
	verifAssert(len(conf.Hasher.destinations) == len(ds), tag+":hasher-destination-list-in-step")
	verifAssert(len(conf.Hasher.Ring) == 100*len(ds), tag+":hundred-ring-entries-per-destination")
	if len(ds) != len(want) || len(conf.Hasher.destinations) != len(ds) {
		return
	}
	for i := range ds {
		verifAssert(ds[i] == want[i], tag+":route-destination-list")
		verifAssert(conf.Hasher.destinations[i] == ds[i], tag+":hasher-destination-list-in-step")
	}
	good := true
	for i, e := range conf.Hasher.Ring {
		if e.DestinationIndex < 0 || e.DestinationIndex >= len(ds) {
			good = false
			continue
		}
		d := ds[e.DestinationIndex]
		hostOK := d.Addr == e.Hostname || (len(d.Addr) > len(e.Hostname) && d.Addr[:len(e.Hostname)+1] == e.Hostname+":")
		if !hostOK || d.Instance != e.Instance {
			good = false
		}
		if i > 0 && verifC15TupleLess(e, conf.Hasher.Ring[i-1]) {
			good = false
		}
	}
	verifAssert(good, tag+":ring-entries-sorted-and-pointing-at-their-destination")
}

func verifC15Drops(d *dest.Destination) int64 {
	return stats.Counter("dest=" + d.Key + ".unit=Metric.action=drop.reason=conn_down_no_spool").Count()
}

func VerifC15Route() {
	addrs := []string{"127.0.0.1:2103:a", "127.0.0.1:2103:b", "127.0.0.2:2103", "127.0.0.3:2104:a"}
	m, _ := matcher.New("", "", "", "", "", "")
	mk := func(a string) *dest.Destination {
		d, err := dest.New("chroute", m, a, "/tmp/verif-spool", false, false, 1e9, 1e9, 10, 100, 10, 1000, 10, 1e9, 1e6, 1e6)
		if err != nil {
			panic(err)
		}
		return d
	}
	n := 2
	var ds []*dest.Destination
	for i := 0; i < n; i++ {
		ds = append(ds, mk(addrs[i]))
	}
	verifAssert(ds[0].Addr == "127.0.0.1:2103" && ds[0].Instance == "a" && ds[1].Instance == "b", "address-split-into-host-port-and-instance")
	ri, err := NewConsistentHashing("chroute", m, append([]*dest.Destination{}, ds...))
	verifAssert(err == nil, "route-created")
	r := ri.(*ConsistentHashing)
	verifSettle()
	verifC15RouteCheck(r, ds, "new")

	var key []byte
	if p := verifParam("key"); p != "" {
		key = []byte(p)
	} else {
		key = verifNameBytes(2)
	}
	line := append(append([]byte{}, key...), []byte(" 1 1500000000")...)
	owner := func(tag string) *dest.Destination {
		conf := r.config.Load().(consistentHashingConfig)
		want := conf.Dests()[conf.Hasher.GetDestinationIndex(key)]
		before := map[*dest.Destination]int64{}
		for _, d := range conf.Dests() {
			before[d] = verifC15Drops(d)
		}
		r.Dispatch(line)
		verifSettle()
		for _, d := range conf.Dests() {
			got := verifC15Drops(d) - before[d]
			if d == want {
				verifAssert(got == 1, tag+":line-reaches-the-destination-the-ring-names")
			} else {
				verifAssert(got == 0, tag+":line-reaches-no-other-destination")
			}
		}
		return want
	}
	c0 := owner("new")
	D := mk(addrs[2])
	r.Add(D)
	verifSettle()
	ds = append(ds, D)
	verifC15RouteCheck(r, ds, "add")
	c1 := owner("add")
	verifAssert(c1 == c0 || c1 == D, "add-moves-keys-only-to-the-new-destination")
	j := verifChoice("remove", 3)
	gone := ds[j]
	err = r.DelDestination(j)
	verifAssert(err == nil, "remove-ok")
	verifSettle()
	ds = append(append([]*dest.Destination{}, ds[:j]...), ds[j+1:]...)
	verifC15RouteCheck(r, ds, "del")
	c2 := owner("del")
	verifAssert(c2 == c1 || c1 == gone, "remove-moves-only-keys-of-the-removed-destination")
	verifCover("end")
}

// VerifC15RouteUpdate: changing a destination's address (UpdateDestination with "addr", the endpoint
// answering so that the reconnect succeeds) changes the (host, instance) pair the ring is built from: the
// route's hasher must be rebuilt from the destinations as they are now, and agree with a ring built from
// scratch over the same destinations on the owner of the key.
func VerifC15RouteUpdate() {
	addrs := []string{"127.0.0.1:2103:a", "127.0.0.1:2103:b", "127.0.0.2:2103"}
	m, _ := matcher.New("", "", "", "", "", "")
	var ds []*dest.Destination
	for _, a := range addrs {
		d, err := dest.New("chroute", m, a, "/tmp/verif-spool", false, false, 1e9, 1e9, 10, 100, 10, 1000, 10, 1e9, 1e6, 1e6)
		if err != nil {
			panic(err)
		}
		ds = append(ds, d)
	}
	ri, err := NewConsistentHashing("chroute", m, append([]*dest.Destination{}, ds...))
	verifAssert(err == nil, "route-created")
	r := ri.(*ConsistentHashing)
	verifSettle()
	verifC15RouteCheck(r, ds, "new")
	var key []byte
	if p := verifParam("key"); p != "" {
		key = []byte(p)
	} else {
		key = verifNameBytes(2)
	}
	j := verifChoice("update", len(ds))
	inst := verifParam("inst")
	verifEndpointUp(true)
	na := verifEndpointAddr()
	if inst != "" {
		na += ":" + inst
	}
	err = r.UpdateDestination(j, map[string]string{"addr": na})
	verifAssert(err == nil, "update-ok")
	verifSettle()
	verifAssert(ds[j].Addr == verifEndpointAddr() && ds[j].Instance == inst, "destination-took-the-new-address")
	verifC15RouteCheck(r, ds, "update")
	conf := r.config.Load().(consistentHashingConfig)
	fresh := NewConsistentHasher(conf.Dests())
	verifAssert(conf.Hasher.GetDestinationIndex(key) == fresh.GetDestinationIndex(key), "update:owner-as-in-a-ring-built-from-scratch")
	verifCover("end")
}

// VerifC15RouteConnected: the ring is built from the destinations' CONFIGURED (host, instance) pairs also after the
// destinations have connected to a live endpoint (connecting goes through updateConn, which re-derives address
// and instance) and the ring is rebuilt by a later change (Add).
func VerifC15RouteConnected() {
	verifEndpointUp(true)
	ep := verifEndpointAddr()
	insts := []string{"a", "b", ""}
	m, _ := matcher.New("", "", "", "", "", "")
	mk := func(inst string) *dest.Destination {
		a := ep
		if inst != "" {
			a += ":" + inst
		}
		d, err := dest.New("chroute", m, a, "/tmp/verif-spool", false, false, 1e9, 1e9, 10, 100, 10, 1000, 10, 1e9, 1e6, 1e6)
		if err != nil {
			panic(err)
		}
		return d
	}
	ds := []*dest.Destination{mk(insts[0]), mk(insts[1])}
	ri, err := NewConsistentHashing("chroute", m, append([]*dest.Destination{}, ds...))
	verifAssert(err == nil, "route-created")
	r := ri.(*ConsistentHashing)
	verifSettle()
	if !verifIsSymbolic() {
		time.Sleep(300 * time.Millisecond)
	}
	verifAssert(verifNumConns() >= 2, "destinations-connected")
	D := mk(insts[2])
	r.Add(D)
	verifSettle()
	ds = append(ds, D)
	for i, d := range ds {
		verifAssert(d.Addr == ep && d.Instance == insts[i], "connected-destination-keeps-its-configured-host-and-instance")
	}
	verifC15RouteCheck(r, ds, "connected")
	verifCover("end")
}
