//go:build verif

package route

import (
	"bytes"
	"regexp"
	"sync"
	"sync/atomic"
	"time"

	dest "github.com/grafana/carbon-relay-ng/destination"
	whisper "github.com/grafana/carbon-relay-ng/go-whisper"
	"github.com/grafana/carbon-relay-ng/matcher"
	"github.com/grafana/carbon-relay-ng/persister"
	"github.com/grafana/carbon-relay-ng/stats"
	"github.com/grafana/metrictank/cluster/partitioner"
)

// VerifC16Kafka: the Kafka route's batch. The route object is built the way NewKafkaMdm builds it (no sarama
// configuration), its real run loop runs against the engine's producer model, which records the bytes of every
// message value as they are when SendMessages is called. Every line of a batch must arrive as the msgp
// encoding of ITS OWN record (name, value, timestamp, interval, org id, id), in hand-off order, also when a
// failed SendMessages makes the route send the batch again. Engine only (natively sarama would dial brokers).
func VerifC16Kafka() {
	if !verifIsSymbolic() {
		verifAssert(true, "engine-only")
		verifCover("end")
		return
	}
	m, _ := matcher.New("", "", "", "", "", "")
	ret := whisper.NewRetention(10, 100)
	schemas := persister.WhisperSchemas{{Name: "default", Pattern: regexp.MustCompile(".*"), RetentionStr: "10s:1000s", Retentions: whisper.Retentions{&ret}}}
	flushMaxNum := 2 + verifChoice("flushmaxnum", 2)
	r := &KafkaMdm{
		baseRoute:    baseRoute{sync.Mutex{}, atomic.Value{}, "kafka"},
		topic:        "mdm",
		brokers:      []string{"localhost:9092"},
		buf:          make(chan []byte, 10),
		schemas:      schemas,
		orgId:        1,
		bufSize:      10,
		flushMaxNum:  flushMaxNum,
		flushMaxWait: time.Second,

		numErrFlush:       stats.Counter("dest=k.unit=Err.type=flush"),
		numOut:            stats.Counter("dest=k.unit=Metric.direction=out"),
		durationTickFlush: stats.Timer("dest=k.what=durationFlush.type=ticker"),
		durationManuFlush: stats.Timer("dest=k.what=durationFlush.type=manual"),
		tickFlushSize:     stats.Histogram("dest=k.unit=B.what=FlushSize.type=ticker"),
		manuFlushSize:     stats.Histogram("dest=k.unit=B.what=FlushSize.type=manual"),
		numBuffered:       stats.Gauge("dest=k.unit=Metric.what=numBuffered"),
		bufferSize:        stats.Gauge("dest=k.unit=Metric.what=bufferSize"),
		numDropBuffFull:   stats.Counter("dest=k.unit=Metric.action=drop.reason=queue_full"),
	}
	r.dispatch = dispatchBlocking
	var err error
	r.partitioner, err = partitioner.NewKafka("bySeries")
	if err != nil {
		panic(err)
	}
	r.config.Store(baseConfig{m, make([]*dest.Destination, 0)})
	verifKafkaFailNext(verifChoice("failures", 2))
	go r.run()
	verifSettle()

	// lines whose records differ in size in every order (a later record smaller than, equal to, larger than an earlier one)
	names := []string{"servers.web02.cpu", "a.b", "servers.db01.mem", "x.y.z"}
	order := verifChoice("order", 4)
	n := flushMaxNum
	var want [][]byte
	for i := 0; i < n; i++ {
		name := names[(order+i)%4]
		line := []byte(name + " " + string(rune('1'+i)) + " 150000000" + string(rune('0'+i)))
		md, perr := parseMetric(line, schemas, 1)
		if perr != nil {
			panic(perr)
		}
		md.SetId()
		enc, merr := md.MarshalMsg(nil)
		if merr != nil {
			panic(merr)
		}
		want = append(want, enc)
		r.Dispatch(line)
		verifSettle()
	}
	verifSettle()
	verifAssert(verifKafkaNumSent() == n, "one-message-per-line-of-the-batch")
	if verifKafkaNumSent() == n {
		for i := 0; i < n; i++ {
			verifAssert(bytes.Equal(verifKafkaSent(i), want[i]), "message-is-the-encoding-of-its-own-line")
		}
	}
	verifCover("end")
}
