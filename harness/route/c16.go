//go:build verif

package route

import (
	"regexp"
	"strconv"
	"strings"

	"github.com/grafana/carbon-relay-ng/persister"
	"github.com/grafana/metrictank/schema"
)

// C16 (grafana.net / Kafka record): parseMetric.
//
// Oracle for the interval (DESIGN.md appendix D): the series name as Graphite presents it to
// storage-schemas.conf is `name` for an untagged series and `name;tag1;tag2` (tags sorted) for a tagged
// one; Interval = first retention of the first rule, in the order of the schema list, whose pattern
// matches that text.

// verifC16Schemas: rules p0, p1, ... (params, concrete patterns) with first retentions 10s, 20s, ...,
// closed by the mandatory catch-all ".*" with 60s. Built through the real ParseRetentionDefs.
func verifC16Schemas() persister.WhisperSchemas {
	var ws persister.WhisperSchemas
	add := func(pat, ret string) {
		r, err := persister.ParseRetentionDefs(ret)
		if err != nil {
			panic(err)
		}
		ws = append(ws, persister.Schema{Name: pat, Pattern: regexp.MustCompile(pat), RetentionStr: ret, Retentions: r})
	}
	for i := 0; i < 3; i++ {
		p := verifParam("p" + strconv.Itoa(i))
		if p == "" {
			break
		}
		add(p, strconv.Itoa(10*(i+1))+"s:1d,1m:30d")
	}
	add(".*", "60:43200")
	return ws
}

func verifC16Digits(tok string) (bool, uint32) {
	ok := len(tok) > 0
	var v uint64
	for i := 0; i < len(tok); i++ {
		c := tok[i]
		ok = verifAnd(ok, verifAnd(c >= '0', c <= '9'))
		v = v*10 + uint64(c-'0')
	}
	return verifAnd(ok, v <= 0xffffffff), uint32(v)
}

func VerifC16ParseMetric() {
	schemas := verifC16Schemas()
	maxName := 3
	if p := verifParam("maxname"); p != "" {
		maxName, _ = strconv.Atoi(p)
	}
	// first token. Free form (default): 1..maxName free printable ASCII bytes, every ';' in it starts a tag.
	// Structured form (param "maxtags"): a name of 1..2 bytes without ';' and 0..maxtags tags of three free
	// bytes each without ';' (valid only if shaped k=v), so that tagged, sortable series fit the bound.
	var tok string
	if p := verifParam("maxtags"); p != "" {
		maxTags, _ := strconv.Atoi(p)
		free := func(tag string, n int) string {
			b := verifString(tag, n)
			for i := 0; i < n; i++ {
				verifAssume(verifAnd(verifAnd(b[i] > 0x20, b[i] < 0x7f), b[i] != ';'))
			}
			return b
		}
		tok = free("name", 1+verifChoice("namelen", 2))
		nt := verifChoice("ntags", maxTags+1)
		for i := 0; i < nt; i++ {
			tok += ";" + free("tag", 3)
		}
	} else {
		n := 1 + verifChoice("namelen", maxName)
		tokb := verifBytes("name", n)
		for _, c := range tokb {
			verifAssume(verifAnd(c > 0x20, c < 0x7f))
		}
		tok = string(tokb)
	}
	valTok := verifString("val", 1) // a digit: exact in the ParseFloat model (spellings: see the pickle obligations)
	verifAssume(verifAnd(valTok[0] >= '0', valTok[0] <= '9'))
	tsLen := 1
	if verifParam("maxtags") == "" {
		tsLen = 1 + verifChoice("tslen", 2)
	}
	tsTok := verifString("ts", tsLen)
	for i := 0; i < len(tsTok); i++ {
		verifAssume(verifAnd(tsTok[i] > 0x20, tsTok[i] < 0x7f))
	}
	org := verifInt("org", 0, 1<<31)
	line := tok + " " + valTok + " " + tsTok

	md, err := parseMetric([]byte(line), schemas, org)

	// the harness's own reading of the line
	tsOK, ts := verifC16Digits(tsTok)
	val, verr := strconv.ParseFloat(valTok, 64)
	if !verifAnd(tsOK, verr == nil) {
		verifAssert(err != nil && md == nil, "unrepresentable-line-gives-no-record")
		verifCover("end")
		return
	}
	var parts []string
	start := 0
	for i := 0; i < len(tok); i++ {
		if tok[i] == ';' {
			parts = append(parts, tok[start:i])
			start = i + 1
		}
	}
	parts = append(parts, tok[start:])
	name := parts[0]
	tags := append([]string{}, parts[1:]...)
	for i := 1; i < len(tags); i++ { // insertion sort
		for j := i; j > 0 && tags[j] < tags[j-1]; j-- {
			tags[j], tags[j-1] = tags[j-1], tags[j]
		}
	}
	present := name
	if len(tags) > 0 {
		present = name + ";" + strings.Join(tags, ";")
	}
	wantInterval := 0
	for _, s := range schemas {
		if s.Pattern.MatchString(present) {
			wantInterval = s.Retentions[0].SecondsPerPoint()
			break
		}
	}
	wantName := schema.EatDots(name)
	valid := verifAnd(org != 0, verifAnd(wantName != "", schema.ValidateTags(tags) == nil))

	if valid {
		verifAssert(err == nil && md != nil, "representable-line-gives-a-record")
		if md != nil {
			verifAssert(md.Name == wantName, "name-is-text-before-first-semicolon")
			verifAssert(len(md.Tags) == len(tags), "tags-are-the-semicolon-separated-rest")
			if len(md.Tags) == len(tags) {
				for i := range tags {
					verifAssert(md.Tags[i] == tags[i], "tags-sorted")
				}
			}
			verifAssert(md.Value == val || (md.Value != md.Value && val != val), "value-preserved")
			verifAssert(md.Time == int64(ts), "timestamp-preserved")
			verifAssert(md.OrgId == org, "configured-org-id")
			verifAssert(md.Interval == wantInterval, "interval-of-first-rule-matching-the-series-name-as-graphite-presents-it")
		}
	} else {
		verifAssert(err != nil && md == nil, "unrepresentable-line-gives-no-record")
	}
	verifCover("end")
}
