//go:build verif

package route

import (
	"net/http"
	"os"
	"regexp"
	"strings"
	"sync"
	"sync/atomic"
	"time"

	dest "github.com/grafana/carbon-relay-ng/destination"
	whisper "github.com/grafana/carbon-relay-ng/go-whisper"
	"github.com/grafana/carbon-relay-ng/matcher"
	"github.com/grafana/carbon-relay-ng/persister"
	"github.com/grafana/carbon-relay-ng/stats"
)

// verifGrafanaNet builds the route object the way NewGrafanaNet does, without reading files or starting
// the schema/aggregation posters; workers are started for real.
func verifGrafanaNet(concurrency, shardBuf, flushMaxNum int, blocking bool) *GrafanaNet {
	m, _ := matcher.New("", "", "", "", "", "")
	ret := whisper.NewRetention(10, 100)
	schemas := persister.WhisperSchemas{{Name: "default", Pattern: regexp.MustCompile(".*"), RetentionStr: "10s:1000s", Retentions: whisper.Retentions{&ret}}}
	cfg := GrafanaNetConfig{Addr: "http://localhost/metrics", ApiKey: "key", BufSize: shardBuf * concurrency, FlushMaxNum: flushMaxNum, FlushMaxWait: time.Second,
		Timeout: time.Second, Concurrency: concurrency, OrgID: 1, Blocking: blocking, ErrBackoffMin: time.Millisecond, ErrBackoffFactor: 1.5}
	r := &GrafanaNet{
		baseRoute: baseRoute{sync.Mutex{}, atomic.Value{}, "gnet"},
		Cfg:       cfg,
		schemas:   schemas,
		in:        make([]chan []byte, concurrency),
		shutdown:  make(chan struct{}),
		wg:        new(sync.WaitGroup),
		client:    &http.Client{},

		numErrFlush:       stats.Counter("dest=x.unit=Err.type=flush"),
		numOut:            stats.Counter("dest=x.unit=Metric.direction=out"),
		durationTickFlush: stats.Timer("dest=x.what=durationFlush.type=ticker"),
		durationManuFlush: stats.Timer("dest=x.what=durationFlush.type=manual"),
		tickFlushSize:     stats.Histogram("dest=x.unit=B.what=FlushSize.type=ticker"),
		manuFlushSize:     stats.Histogram("dest=x.unit=B.what=FlushSize.type=manual"),
		numBuffered:       stats.Gauge("dest=x.unit=Metric.what=numBuffered"),
		bufferSize:        stats.Gauge("dest=x.unit=Metric.what=bufferSize"),
		numDropBuffFull:   stats.Counter("dest=x.unit=Metric.action=drop.reason=queue_full"),
	}
	r.addrMetrics = cfg.Addr
	if blocking {
		r.dispatch = dispatchBlocking
	} else {
		r.dispatch = dispatchNonBlocking
	}
	r.wg.Add(concurrency)
	for i := 0; i < concurrency; i++ {
		r.in[i] = make(chan []byte, shardBuf)
		go r.run(r.in[i])
	}
	r.config.Store(baseConfig{m, make([]*dest.Destination, 0)})
	return r
}

func verifFireTimers(sub string) {
	for i := 0; i < verifNumTickers(); i++ {
		if strings.Contains(verifTickerName(i), sub) {
			verifTick(i)
		}
	}
	verifSettle()
}

// VerifC17Retry: every metric accepted into the buffer ends up in an acknowledged POST; a failed batch is
// retried (same batch) and never skipped; the points of one series are acknowledged in arrival order.
func VerifC17Retry() {
	concurrency := 1 + verifChoice("concurrency", 2)
	flushMaxNum := 1 + verifChoice("flushmaxnum", 3)
	r := verifGrafanaNet(concurrency, 4, flushMaxNum, false)
	verifSettle()
	if verifBool("idle") {
		// a whole flush interval without traffic before the first line: the flush timer must still work afterwards (C17h)
		verifFireTimers("grafananet.go")
	}
	names := []string{"a.x", "b.y", "a.x"}
	n := 1 + verifChoice("n", 3)
	verifHTTPMaxFailures(verifParamInt("maxfail", 2))
	verifHTTPAllowBadBody(verifParam("badbody") == "1") // also: error status whose body cannot be read to the end
	var want []string
	for i := 0; i < n; i++ {
		ts := "15000000" + string(rune('0'+i))
		line := names[i] + " " + string(rune('1'+i)) + " " + ts
		r.Dispatch([]byte(line))
		verifSettle()
		want = append(want, names[i]+"@"+ts+"\n")
		if verifBool("timer") {
			verifFireTimers("grafananet.go")
		}
	}
	verifFireTimers("grafananet.go")
	verifFireTimers("grafananet.go")
	if !verifIsSymbolic() {
		return
	}
	acked := string(verifHTTPAcked())
	verifAssert(r.numDropBuffFull.Count() == 0, "nothing-dropped")
	// every accepted metric acknowledged at least once
	for i := 0; i < n; i++ {
		verifAssert(strings.Contains("\n"+acked, "\n"+want[i]), "structural/accepted-metric-acknowledged")
	}
	if n == 3 {
		// a.x was received at positions 0 and 2: its first acknowledgement must come first
		i0 := strings.Index("\n"+acked, "\n"+want[0])
		i2 := strings.Index("\n"+acked, "\n"+want[2])
		verifAssert(i0 >= 0 && i2 >= 0 && i0 < i2, "structural/series-acknowledged-in-arrival-order")
	}
	verifAssert(strings.Count(acked, "\n") >= n, "structural/all-metrics-acknowledged")
	verifAssert(verifHTTPRetriedSameBatch(), "structural/failed-batch-retried-not-skipped")
	verifAssert(int(r.numErrFlush.Count()) == verifHTTPFailures(), "structural/every-failure-counted")
	verifCover("end")
}

// VerifC17Buffer: full shard buffer: non-blocking mode drops and counts without stalling; blocking mode
// never drops; equal names always go to the same shard.
func VerifC17Buffer() {
	blocking := verifBool("blocking")
	concurrency := 2
	r := verifGrafanaNet(concurrency, 1, 100, blocking)
	// workers are not scheduled until the harness blocks or settles: buffers fill up
	name := verifBytes("name", 1+verifChoice("namelen", 2))
	for _, b := range name {
		verifAssume(b > 0x20 && b < 0x7f)
	}
	line1 := append(append([]byte{}, name...), []byte(" 1 1500000001")...)
	line2 := append(append([]byte{}, name...), []byte(" 2 1500000002")...)
	line3 := append(append([]byte{}, name...), []byte(" 3 1500000003")...)
	mark := verifTraceMark()
	r.Dispatch(line1)
	if verifIsSymbolic() && !blocking {
		verifAssert(verifCalledSince(mark, "op:plain-chan-send") == 0 && verifCalledSince(mark, "op:blocking-select") == 0, "structural/nonblocking-dispatch-has-no-blocking-channel-operation")
	}
	// same series -> same shard: exactly one shard holds it
	verifAssert(len(r.in[0])+len(r.in[1]) == 1, "first-line-buffered")
	shard := 0
	if len(r.in[1]) == 1 {
		shard = 1
	}
	r.Dispatch(line2)
	if blocking {
		// the caller blocked until the worker made room; nothing may be dropped
		verifAssert(r.numDropBuffFull.Count() == 0, "blocking-mode-never-drops")
	} else {
		verifAssert(len(r.in[shard]) == 1 && len(r.in[1-shard]) == 0, "same-series-same-shard")
		verifAssert(r.numDropBuffFull.Count() == 1, "nonblocking-full-buffer-drop-counted")
	}
	r.Dispatch(line3)
	verifSettle()
	verifCover("end")
}

// VerifC17Shutdown: Shutdown returns, after everything buffered has been flushed.
func VerifC17Shutdown() {
	concurrency := 1 + verifChoice("concurrency", 2)
	r := verifGrafanaNet(concurrency, 4, 100, false)
	verifHTTPMaxFailures(0)
	verifSettle()
	// up to 4 lines, of one series (one shard) or of two: the first line of a shard is handed to its waiting
	// worker directly, the others sit in the shard's buffer when Shutdown is called
	n := verifChoice("n", 5)
	names := []string{"a.x", "b.y", "a.x", "a.x"}
	if verifBool("one-series") {
		names = []string{"a.x", "a.x", "a.x", "a.x"}
	}
	for i := 0; i < n; i++ {
		r.Dispatch([]byte(names[i] + " 1 150000000" + string(rune('0'+i))))
	}
	if verifBool("settle-before-shutdown") {
		verifSettle()
	}
	err := r.Shutdown() // a hang is reported by the engine as deadlock
	verifAssert(err == nil, "shutdown-no-error")
	if verifIsSymbolic() {
		acked := string(verifHTTPAcked())
		verifAssert(strings.Count(acked, "\n") == n, "structural/shutdown-flushed-everything-buffered")
	}
	verifCover("end")
}

func verifWriteFile(path, content string) {
	f, err := os.Create(path)
	if err != nil {
		panic(err)
	}
	f.WriteString(content)
	f.Close()
}

// VerifC17Stall: the route built by the real NewGrafanaNet survives an endpoint that starts answering
// and then stalls: the request is abandoned after the configured timeout and retried, so every
// accepted metric is still acknowledged and Shutdown returns.
func VerifC17Stall() {
	dir := verifTempDir()
	verifWriteFile(dir+"/storage-schemas.conf", "[default]\npattern = .*\nretentions = 10s:1d\n")
	verifWriteFile(dir+"/storage-aggregation.conf", "[default]\npattern = .*\nxFilesFactor = 0.5\naggregationMethod = avg\n")
	cfg, err := NewGrafanaNetConfig("http://localhost/metrics", "key", dir+"/storage-schemas.conf", dir+"/storage-aggregation.conf")
	if err != nil {
		panic(err)
	}
	cfg.Concurrency = 1
	cfg.BufSize = 4
	cfg.FlushMaxNum = 1
	cfg.Timeout = time.Second
	m, _ := matcher.New("", "", "", "", "", "")
	verifHTTPAllowStall(true)
	verifHTTPMaxFailures(1)
	rr, err := NewGrafanaNet("gnet", m, cfg)
	if err != nil {
		panic(err)
	}
	r := rr.(*GrafanaNet)
	verifSettle()
	r.Dispatch([]byte("a.x 1 1500000000"))
	verifSettle()
	err = r.Shutdown() // a worker stuck in a stalled exchange shows up as a deadlock here
	verifAssert(err == nil, "shutdown-no-error")
	if verifIsSymbolic() {
		verifAssert(strings.Count(string(verifHTTPAcked()), "\n") == 1, "structural/metric-acknowledged-after-stalled-exchange")
	}
	verifCover("end")
}

// VerifC17NonBlockingRace: several input goroutines dispatch into the same shard buffer at once while the
// shard worker is busy (retrying a flush: nobody receives). The interleaving is a decision variable (the
// engine may switch goroutines before every channel / atomic / lock operation, up to "preemptions" times).
// In non-blocking mode no schedule may park a dispatcher: a dispatcher blocked in a send with no receiver is
// reported by the engine as a deadlock; and every line is either buffered or counted as dropped.
func VerifC17NonBlockingRace() {
	capacity := 1 + verifChoice("cap", 2)
	prefill := verifChoice("prefill", capacity+1)
	producers := verifParamInt("producers", 2)
	buf := make(chan []byte, capacity)
	for i := 0; i < prefill; i++ {
		buf <- []byte("x 0 1500000000")
	}
	gauge := stats.Gauge("dest=race.unit=Metric.what=numBuffered")
	drops := stats.Counter("dest=race.unit=Metric.action=drop.reason=queue_full")
	done := make(chan bool, producers)
	verifPreemptions(verifParamInt("preemptions", 1))
	for i := 0; i < producers; i++ {
		line := []byte{'a' + byte(i), ' ', '1', ' ', '1'}
		go func() {
			dispatchNonBlocking(buf, line, gauge, drops)
			done <- true
		}()
	}
	for i := 0; i < producers; i++ {
		<-done
	}
	verifPreemptions(0)
	verifAssert(gauge.Value()+drops.Count() == int64(producers), "every-line-buffered-or-counted-as-dropped")
	verifAssert(int64(len(buf)) == int64(prefill)+gauge.Value(), "buffered-lines-are-in-the-buffer")
	room := int64(capacity - prefill)
	if room > int64(producers) {
		room = int64(producers)
	}
	verifAssert(gauge.Value() == room, "dropped-only-when-the-buffer-was-full")
	verifCover("end")
}

// VerifC17EarlyShutdown: the route built by the real NewGrafanaNet is shut down right after it was created and
// handed a few metrics, before its shard workers have run at all (the harness does not yield in between).
// Shutdown must still return only after everything buffered was acknowledged.
func VerifC17EarlyShutdown() {
	dir := verifTempDir()
	verifWriteFile(dir+"/storage-schemas.conf", "[default]\npattern = .*\nretentions = 10s:1d\n")
	verifWriteFile(dir+"/storage-aggregation.conf", "[default]\npattern = .*\nxFilesFactor = 0.5\naggregationMethod = avg\n")
	cfg, err := NewGrafanaNetConfig("http://localhost/metrics", "key", dir+"/storage-schemas.conf", dir+"/storage-aggregation.conf")
	if err != nil {
		panic(err)
	}
	cfg.Concurrency = 1 + verifChoice("concurrency", 2)
	cfg.BufSize = 8
	cfg.FlushMaxNum = 10
	cfg.Timeout = time.Second
	m, _ := matcher.New("", "", "", "", "", "")
	verifHTTPMaxFailures(0)
	rr, err := NewGrafanaNet("gnet", m, cfg)
	if err != nil {
		panic(err)
	}
	r := rr.(*GrafanaNet)
	n := 1 + verifChoice("nlines", 3)
	names := []string{"a.x", "b.y", "c.z"}
	for i := 0; i < n; i++ {
		r.Dispatch([]byte(names[i] + " 1 1500000000"))
	}
	err = r.Shutdown()
	verifAssert(err == nil, "shutdown-no-error")
	if verifIsSymbolic() {
		verifAssert(strings.Count(string(verifHTTPAcked()), "\n") == n, "structural/shutdown-right-after-start-flushed-everything-buffered")
	}
	verifCover("end")
}
