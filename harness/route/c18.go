//go:build verif

package route

import (
	dest "github.com/grafana/carbon-relay-ng/destination"
	"github.com/grafana/carbon-relay-ng/matcher"
)

// verifRunningDest: a destination that looks running (Shutdown needs a shutdown channel) without sockets.
func verifIdleDest(prefix string) *dest.Destination {
	m, _ := matcher.New(prefix, "", "", "", "", "")
	return verifSinkDest(m, "127.0.0.1:2003")
}

// VerifC18Route: the destination list a dispatcher already holds is never changed by Add /
// DelDestination / Update / UpdateDestination; the route's view equals the model list; an index beyond
// the end is rejected and leaves the route unchanged.
func VerifC18Route() {
	n := 1 + verifChoice("n", 3)
	var dests []*dest.Destination
	names := []string{"a", "b", "c", "d", "e"}
	for i := 0; i < n; i++ {
		dests = append(dests, verifIdleDest(names[i]))
	}
	rm, _ := matcher.New("", "", "", "", "", "")
	r := verifAllMatch(rm, append([]*dest.Destination{}, dests...))
	old := r.config.Load().(Config)
	oldDests := append([]*dest.Destination{}, old.Dests()...)
	model := append([]*dest.Destination{}, dests...)

	nops := 1 + verifChoice("nops", 2)
	for i := 0; i < nops; i++ {
		switch verifChoice("op", 4) {
		case 0:
			idx := verifChoice("idx", 5)
			err := r.DelDestination(idx)
			if idx >= len(model) {
				verifAssert(err != nil, "deldest-bad-index-rejected")
			} else {
				verifAssert(err == nil, "deldest-ok")
				model = append(append([]*dest.Destination{}, model[:idx]...), model[idx+1:]...)
			}
		case 1:
			d, _ := dest.New("route", rm, "127.0.0.1:2004", "/tmp/verif-spool", false, false, 1e9, 1e9, 10, 100, 10, 1000, 10, 1e9, 1e6, 1e6)
			// Add runs the destination; its relay goroutine then sits in its select
			r.Add(d)
			model = append(model, d)
		case 2:
			err := r.Update(map[string]string{"prefix": "zz"})
			verifAssert(err == nil, "update-ok")
		case 3:
			idx := verifChoice("idx", 5)
			err := r.UpdateDestination(idx, map[string]string{"prefix": "yy"})
			if idx >= len(model) {
				verifAssert(err != nil, "updatedest-bad-index-rejected")
			} else {
				verifAssert(err == nil, "updatedest-ok")
			}
		}
	}
	verifAssert(len(old.Dests()) == len(oldDests), "held-config-length-unchanged")
	for i := range oldDests {
		verifAssert(old.Dests()[i] == oldDests[i], "held-config-dests-unchanged")
	}
	verifAssert(old.Matcher().Prefix == "", "held-config-matcher-unchanged")
	cur := r.config.Load().(Config)
	verifAssert(len(cur.Dests()) == len(model), "view-length")
	if len(cur.Dests()) == len(model) {
		for i := range model {
			verifAssert(cur.Dests()[i] == model[i], "view-equals-model")
		}
	}
	verifCover("end")
}

// VerifC18HashRoute: the same for a consistent-hashing route, whose published configuration also carries the
// hash ring: the ring a dispatcher already holds is never changed by Add / DelDestination / Update /
// UpdateDestination, and looking any key up in it still names one of the held destinations.
func VerifC18HashRoute() {
	m, _ := matcher.New("", "", "", "", "", "")
	mk := func(a string) *dest.Destination {
		d, err := dest.New("chroute", m, a, "/tmp/verif-spool", false, false, 1e9, 1e9, 10, 100, 10, 1000, 10, 1e9, 1e6, 1e6)
		if err != nil {
			panic(err)
		}
		return d
	}
	ds := []*dest.Destination{mk("127.0.0.1:2103:a"), mk("127.0.0.2:2103")}
	ri, err := NewConsistentHashing("chroute", m, append([]*dest.Destination{}, ds...))
	verifAssert(err == nil, "route-created")
	r := ri.(*ConsistentHashing)
	verifSettle()
	held := r.config.Load().(consistentHashingConfig)
	heldRing := append(hashRing{}, held.Hasher.Ring...)
	heldDests := append([]*dest.Destination{}, held.Dests()...)
	nops := 1 + verifChoice("nops", 2)
	for i := 0; i < nops; i++ {
		switch verifChoice("op", 4) {
		case 0:
			r.Add(mk("127.0.0.3:2104:b"))
		case 1:
			r.DelDestination(verifChoice("idx", 2))
		case 2:
			r.Update(map[string]string{"prefix": "zz"})
		case 3:
			r.UpdateDestination(verifChoice("idx", 2), map[string]string{"prefix": "yy"})
		}
		verifSettle()
	}
	verifAssert(len(held.Dests()) == len(heldDests), "held-config-length-unchanged")
	for i := range heldDests {
		verifAssert(i < len(held.Dests()) && held.Dests()[i] == heldDests[i], "held-config-dests-unchanged")
	}
	same := len(held.Hasher.Ring) == len(heldRing)
	if same {
		for i := range heldRing {
			if held.Hasher.Ring[i] != heldRing[i] {
				same = false
			}
		}
	}
	verifAssert(same, "held-hash-ring-unchanged")
	inRange := true
	for _, e := range held.Hasher.Ring {
		if e.DestinationIndex < 0 || e.DestinationIndex >= len(held.Dests()) {
			inRange = false
		}
	}
	verifAssert(inRange, "held-ring-names-only-held-destinations")
	verifCover("end")
}

// VerifC18RouteUpdateAtomic: one modRoute / Update carrying several options is one change. (a) If any option is
// refused (an invalid regex, an unknown option), the update returns an error and the route's filter is what it was
// -- whichever order the options are visited in. (b) While an accepted two-option update runs, a concurrent
// dispatcher's Match sees the old filter or the new one, never a mixture: the name "b" is accepted by neither
// (old: prefix "a"; new: prefix "b" and sub "y") but would be by the half-applied filter (prefix "b", old sub).
// The interleaving is a decision variable (bounded preemption at lock / atomic operations).
func VerifC18RouteUpdateAtomic() {
	m0, _ := matcher.New("a", "", "", "", "", "")
	all, _ := matcher.New("", "", "", "", "", "")
	r := verifAllMatch(m0, []*dest.Destination{verifSinkDest(all, "127.0.0.1:2003")})
	if verifBool("rejected-update") {
		opts := map[string]string{}
		bad := [][2]string{{"regex", "("}, {"nosuchoption", "x"}}[verifChoice("bad-option", 2)]
		if verifBool("bad-option-first") {
			opts[bad[0]] = bad[1]
			opts["prefix"] = "b"
		} else {
			opts["prefix"] = "b"
			opts[bad[0]] = bad[1]
		}
		err := r.Update(opts)
		verifAssert(err != nil, "update-with-a-bad-option-rejected")
		cur := r.config.Load().(Config).Matcher()
		verifAssert(cur.Prefix == "a" && cur.Sub == "" && cur.Regex == "", "rejected-update-leaves-the-filter-unchanged")
		verifAssert(r.Match([]byte("a1")) && !r.Match([]byte("b1")), "rejected-update-leaves-the-filter-unchanged")
		verifCover("end")
		return
	}
	res := make(chan bool, 1)
	verifPreemptions(verifParamInt("preemptions", 2))
	go func() { res <- r.Match([]byte("b")) }()
	err := r.Update(map[string]string{"prefix": "b", "sub": "y"})
	got := <-res
	verifPreemptions(0)
	verifAssert(err == nil, "update-ok")
	verifAssert(!got, "concurrent-match-sees-old-or-new-filter-never-a-mixture")
	cur := r.config.Load().(Config).Matcher()
	verifAssert(cur.Prefix == "b" && cur.Sub == "y", "update-applied-completely")
	verifCover("end")
}
