//go:build verif

package route

// Models used by the C20 harness in package cfg / imperatives (verifStubFunc). C20 stops at the
// GrafanaNetConfig object: reading storage-schemas.conf and starting the HTTP workers is outside.

import (
	"sync"
	"sync/atomic"

	dest "github.com/grafana/carbon-relay-ng/destination"
	"github.com/grafana/carbon-relay-ng/matcher"
	"github.com/grafana/carbon-relay-ng/persister"
)

// the schemas file exists and is valid
func VerifC20GetSchemasModel(file string) (persister.WhisperSchemas, error) { return nil, nil }

// NewGrafanaNet without files, workers and HTTP client: the route object with its key, matcher and Cfg.
func VerifC20NewGrafanaNetModel(key string, matcher matcher.Matcher, cfg GrafanaNetConfig) (Route, error) {
	r := &GrafanaNet{baseRoute: baseRoute{sync.Mutex{}, atomic.Value{}, key}, Cfg: cfg}
	r.config.Store(baseConfig{matcher, make([]*dest.Destination, 0)})
	return r, nil
}
