//go:build verif

package route

import (
	"sync"
	"sync/atomic"

	dest "github.com/grafana/carbon-relay-ng/destination"
	"github.com/grafana/carbon-relay-ng/matcher"
)

// VerifC14HashRingEmptied: removing destinations of a consistent-hashing route down to none is either
// rejected or handled safely: a later Dispatch never panics.
func VerifC14HashRingEmptied() {
	n := 1 + verifChoice("ndests", 2)
	var dests []*dest.Destination
	names := []string{"a", "b"}
	for i := 0; i < n; i++ {
		dests = append(dests, verifIdleDest(names[i]))
	}
	rm, _ := matcher.New("", "", "", "", "", "")
	r := &ConsistentHashing{baseRoute{sync.Mutex{}, atomic.Value{}, "ch"}}
	hasher := NewConsistentHasher(dests)
	r.config.Store(consistentHashingConfig{baseConfig{rm, dests}, &hasher})
	if verifBool("update-destination-first") {
		// an accepted modDest on the route (options as the admin port passes them)
		r.UpdateDestination(0, map[string]string{"prefix": "zz"})
		r.Dispatch([]byte("warm.up 1 1500000000"))
	}
	removed := 0
	for i := 0; i < n; i++ {
		if r.DelDestination(0) == nil {
			removed++
		}
	}
	name := verifNameBytes(1 + verifChoice("namelen", 2))
	line := append(append([]byte{}, name...), []byte(" 1 1500000000")...)
	r.Dispatch(line)
	verifCover("end")
}
