//go:build verif

package route

import (
	"net/http"
	"net/http/httptest"
	"sync"
	"sync/atomic"
	"time"

	dest "github.com/grafana/carbon-relay-ng/destination"
	"github.com/grafana/carbon-relay-ng/matcher"
)

// VerifC14HashRingEmptied: removing destinations of a consistent-hashing route down to none is either
// rejected or handled safely: a later Dispatch never panics.
func VerifC14HashRingEmptied() {
	n := 1 + verifChoice("ndests", 2)
	var dests []*dest.Destination
	names := []string{"a", "b"}
	for i := 0; i < n; i++ {
		dests = append(dests, verifIdleDest(names[i]))
	}
	rm, _ := matcher.New("", "", "", "", "", "")
	r := &ConsistentHashing{baseRoute{sync.Mutex{}, atomic.Value{}, "ch"}}
	hasher := NewConsistentHasher(dests)
	r.config.Store(consistentHashingConfig{baseConfig{rm, dests}, &hasher})
	if verifBool("update-destination-first") {
		// an accepted modDest on the route (options as the admin port passes them)
		r.UpdateDestination(0, map[string]string{"prefix": "zz"})
		r.Dispatch([]byte("warm.up 1 1500000000"))
	}
	removed := 0
	for i := 0; i < n; i++ {
		if r.DelDestination(0) == nil {
			removed++
		}
	}
	name := verifNameBytes(1 + verifChoice("namelen", 2))
	line := append(append([]byte{}, name...), []byte(" 1 1500000000")...)
	r.Dispatch(line)
	verifCover("end")
}

// VerifC14GrafanaNetParams: whatever numeric options a grafanaNet route is configured with (concurrency,
// bufSize, flushMaxNum; zero and negative included; one free at a time), the real constructor either refuses
// them with an error or the route works: building it, dispatching two metrics of different series to it and
// shutting it down never panics (the shard choice is hash % concurrency, every shard buffer has
// bufSize / concurrency slots).
func VerifC14GrafanaNetParams() {
	dir := verifTempDir()
	verifWriteFile(dir+"/storage-schemas.conf", "[default]\npattern = .*\nretentions = 10s:1d\n")
	verifWriteFile(dir+"/storage-aggregation.conf", "[default]\npattern = .*\nxFilesFactor = 0.5\naggregationMethod = avg\n")
	addr := "http://localhost/metrics"
	if !verifIsSymbolic() {
		// natively the peer is a local server that acknowledges everything (the engine's HTTP model does the same
		// when no failure is allowed)
		srv := httptest.NewServer(http.HandlerFunc(func(w http.ResponseWriter, r *http.Request) { w.WriteHeader(200) }))
		defer srv.Close()
		addr = srv.URL + "/metrics"
	}
	verifHTTPMaxFailures(0)
	cfg, err := NewGrafanaNetConfig(addr, "key", dir+"/storage-schemas.conf", dir+"/storage-aggregation.conf")
	if err != nil {
		panic(err)
	}
	num := func(name string) int { return int(int16(verifUint16(name))) }
	cfg.Concurrency, cfg.BufSize, cfg.FlushMaxNum = 2, 4, 1
	cfg.Timeout = time.Second
	switch verifChoice("which", 3) {
	case 0:
		cfg.Concurrency = num("concurrency")
	case 1:
		cfg.BufSize = num("bufSize")
	case 2:
		cfg.FlushMaxNum = num("flushMaxNum")
	}
	// sizes are bounded above only to keep allocations (and the number of workers) small
	verifAssume(cfg.Concurrency <= 3 && cfg.BufSize <= 8)
	m, _ := matcher.New("", "", "", "", "", "")
	rr, err := NewGrafanaNet("gnet", m, cfg)
	if err != nil {
		verifCover("rejected")
		return
	}
	r := rr.(*GrafanaNet)
	verifSettle()
	r.Dispatch([]byte("a.x 1 1500000000"))
	r.Dispatch([]byte("b.y 2 1500000001"))
	verifSettle()
	r.Shutdown()
	verifCover("end")
}
