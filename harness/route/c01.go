//go:build verif

package route

import (
	"bytes"

	dest "github.com/grafana/carbon-relay-ng/destination"
	"github.com/grafana/carbon-relay-ng/matcher"
)

// VerifC01Route: destination loops of SendAllMatch / SendFirstMatch against per-destination verdicts.
func VerifC01Route() {
	nd := verifChoice("ndests", verifParamInt("max", 3)+1)
	first := verifBool("firstmatch")
	var dests []*dest.Destination
	for i := 0; i < nd; i++ {
		dests = append(dests, verifSinkDest(verifPrefixMatcher("dest"), "127.0.0.1:2003"))
	}
	rm, _ := matcher.New("", "", "", "", "", "")
	name := verifNameBytes(1 + verifChoice("namelen", 2))
	line := append(append([]byte{}, name...), []byte(" 1 1500000000")...)
	var r Route
	if first {
		r = verifFirstMatch(rm, dests)
	} else {
		r = verifAllMatch(rm, dests)
	}
	r.Dispatch(line)
	seenFirst := false
	for _, d := range dests {
		// the destination's own verdict on the metric name (what the filter means is C03's job)
		acc := d.Matcher.Match(name)
		got := verifDrain(d)
		want := acc
		if first && seenFirst {
			want = false
		}
		if acc {
			seenFirst = true
		}
		if want {
			verifAssert(len(got) == 1, "matching-dest-exactly-once")
			if len(got) == 1 {
				verifAssert(bytes.Equal(got[0], line), "dest-got-the-line")
			}
		} else {
			verifAssert(len(got) == 0, "other-dest-gets-nothing")
		}
	}
	verifCover("end")
}
