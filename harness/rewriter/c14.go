//go:build verif

package rewriter

// VerifC14RewriterNew: the rewriter constructor, as reached from the admin port (addRewriter) and the
// configuration, on arbitrary short specifications: old and not of 0..2 free bytes each (all spellings with
// and without slashes: "/", "//", "/a", "a/", ...), new of 0..1 bytes, max in -2..1. It returns a rewriter
// or an error, never panics; and a rewriter it returned can be applied to any name.
func VerifC14RewriterNew() {
	free := func(tag string, n int) string {
		w := verifString(tag, n)
		for i := 0; i < n; i++ {
			verifAssume(verifAnd(w[i] > 0x20, w[i] < 0x7f))
		}
		return w
	}
	old := free("old", verifChoice("oldlen", 3))
	not := free("not", verifChoice("notlen", 3))
	nw := free("new", verifChoice("newlen", 2))
	max := verifChoice("max", 4) - 2
	rw, err := New(old, nw, not, max)
	if len(old) == 0 || max < -1 {
		verifAssert(err != nil, "empty-old-or-bad-max-refused")
	}
	if err == nil {
		name := []byte(free("name", 1+verifChoice("namelen", 2)))
		_ = rw.Do(name)
	}
	verifCover("end")
}
