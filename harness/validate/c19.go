//go:build verif

package validate

import "hash/fnv"

func verifHash(b []byte) uint64 {
	hh := fnv.New64a()
	hh.Write(b)
	return hh.Sum64()
}

// VerifC19Step: one Ordered(key, ts) call from an arbitrary map state (one-step induction over
// histories): accepted <=> ts > last accepted for hash(key) (absent = 0); stores ts exactly then;
// leaves other entries alone; the shared hash object is left reset.
func VerifC19Step() {
	// arbitrary pre-state: up to two entries with symbolic keys (one of them possibly the key's own hash)
	key := verifBytes("key", 1+verifChoice("keylen", 3))
	other := verifBytes("other", 1+verifChoice("otherlen", 3))
	k := verifHash(key)
	ko := verifHash(other)
	hasOwn := verifBool("has-own")
	old := verifUint32("old")
	oldOther := verifUint32("oldOther")
	verifAssume(ko != k)
	if hasOwn {
		m[k] = old
	} else {
		old = 0
	}
	m[ko] = oldOther
	ts := verifUint32("ts")
	mark := verifTraceMark()
	err := Ordered(key, ts)
	if verifIsSymbolic() {
		// atomicity of the compare-and-set: the whole call runs under ONE exclusive lock acquisition (no
		// read lock, no second acquisition between the comparison and the store)
		verifAssert(verifCalledSince(mark, ").Lock") == 1 && verifCalledSince(mark, ").RLock") == 0, "structural/one-exclusive-lock-around-compare-and-set")
	}
	if ts > old {
		verifAssert(err == nil, "newer-point-accepted")
		verifAssert(m[k] == ts, "accepted-timestamp-stored")
	} else {
		verifAssert(err != nil, "not-newer-point-rejected")
		verifAssert(m[k] == old, "rejected-leaves-register")
	}
	verifAssert(m[ko] == oldOther, "other-names-untouched")
	// no state leaks from this call into the next one (e.g. a shared hasher that was not reset): a second call
	// for the other name still sees exactly its own register
	ts2 := verifUint32("ts2")
	err2 := Ordered(other, ts2)
	if ts2 > oldOther {
		verifAssert(err2 == nil, "next-call-other-name-newer-accepted")
	} else {
		verifAssert(err2 != nil, "next-call-other-name-not-newer-rejected")
	}
	// (the lock is released on every path: the second call above would deadlock otherwise)
	verifCover("end")
}

// VerifC19Seq: a sequence of three calls on two names (possibly equal, possibly differing by nothing but
// content) obeys the max-register specification per name.
func VerifC19Seq() {
	names := [][]byte{verifBytes("a", 2), verifBytes("b", 2)}
	last := map[int]uint32{}
	same := names[0][0] == names[1][0] && names[0][1] == names[1][1]
	for i := 0; i < 3; i++ {
		w := verifChoice("which", 2)
		ts := verifUint32("ts")
		err := Ordered(names[w], ts)
		reg := w
		if same {
			reg = 0
		}
		if ts > last[reg] {
			verifAssert(err == nil, "seq-newer-accepted")
			last[reg] = ts
		} else {
			verifAssert(err != nil, "seq-not-newer-rejected")
		}
	}
	verifCover("end")
}

// VerifC19Injective: FNV-1a-64 does not collide on distinct names of up to 3 bytes (so distinct
// short names never share a register).
func VerifC19Injective() {
	a := verifBytes("a", 1+verifChoice("alen", 3))
	b := verifBytes("b", 1+verifChoice("blen", 3))
	differ := len(a) != len(b)
	if !differ {
		for i := range a {
			if a[i] != b[i] {
				differ = true
			}
		}
	}
	verifAssume(differ)
	verifAssert(verifHash(a) != verifHash(b), "fnv64a-injective-on-short-names")
	verifCover("end")
}
