//go:build verif

package validate


// verifC19Differ: a and b are different names.
func verifC19Differ(a, b []byte) bool {
	if len(a) != len(b) {
		return true
	}
	d := false
	for i := range a {
		d = verifOr(d, a[i] != b[i])
	}
	return d
}

// VerifC19Step: one Ordered(key, ts) call from an arbitrary reachable register state (one-step induction over
// histories; the state is built through the API, so the harness does not depend on how the registers are
// represented): accepted <=> ts > last accepted for that name (absent = 0); a rejected point leaves the register
// alone; other names are untouched: a different name (1..3 bytes) has a register of its own.
func VerifC19Step() {
	key := verifBytes("key", 1+verifChoice("keylen", 3))
	other := verifBytes("other", 1+verifChoice("otherlen", 3))
	verifAssume(verifC19Differ(key, other))
	hasOwn := verifBool("has-own")
	old := verifUint32("old")
	oldOther := verifUint32("oldOther")
	verifAssume(oldOther > 0)
	if hasOwn {
		verifAssume(old > 0)
		verifAssert(Ordered(key, old) == nil, "first-point-of-a-name-accepted")
	} else {
		old = 0
	}
	verifAssert(Ordered(other, oldOther) == nil, "different-name-has-its-own-register")
	ts := verifUint32("ts")
	mark := verifTraceMark()
	err := Ordered(key, ts)
	if verifIsSymbolic() {
		// atomicity of the compare-and-set: the whole call runs under ONE exclusive lock acquisition (no
		// read lock, no second acquisition between the comparison and the store)
		verifAssert(verifCalledSince(mark, ").Lock") == 1 && verifCalledSince(mark, ").RLock") == 0, "structural/one-exclusive-lock-around-compare-and-set")
	}
	cur := old
	if ts > old {
		verifAssert(err == nil, "newer-point-accepted")
		cur = ts
	} else {
		verifAssert(err != nil, "not-newer-point-rejected")
	}
	// no state leaks from this call into the next one (e.g. a shared hasher that was not reset), and the other
	// name still sees exactly its own register
	ts2 := verifUint32("ts2")
	err2 := Ordered(other, ts2)
	if ts2 > oldOther {
		verifAssert(err2 == nil, "next-call-other-name-newer-accepted")
	} else {
		verifAssert(err2 != nil, "next-call-other-name-not-newer-rejected")
	}
	// the register of the name holds exactly the newest accepted timestamp (a rejected point left it alone)
	ts3 := verifUint32("ts3")
	err3 := Ordered(key, ts3)
	verifAssert((err3 == nil) == (ts3 > cur), "register-holds-newest-accepted-timestamp")
	// (the lock is released on every path: the later calls would deadlock otherwise)
	verifCover("end")
}

// VerifC19Seq: a sequence of three calls on two names (possibly equal, possibly differing by nothing but
// content) obeys the max-register specification per name.
func VerifC19Seq() {
	names := [][]byte{verifBytes("a", 2), verifBytes("b", 2)}
	last := map[int]uint32{}
	same := names[0][0] == names[1][0] && names[0][1] == names[1][1]
	for i := 0; i < 3; i++ {
		w := verifChoice("which", 2)
		ts := verifUint32("ts")
		err := Ordered(names[w], ts)
		reg := w
		if same {
			reg = 0
		}
		if ts > last[reg] {
			verifAssert(err == nil, "seq-newer-accepted")
			last[reg] = ts
		} else {
			verifAssert(err != nil, "seq-not-newer-rejected")
		}
	}
	verifCover("end")
}

// VerifC19Injective: distinct names of 1..3 bytes never share a register, observed through the API alone: after
// name a was accepted at t1, a point of a different name b with 0 < t2 <= t1 is still accepted (it is the
// first point of b), and a then still rejects t1.
func VerifC19Injective() {
	var a, b []byte
	if n := verifParamInt("len", 0); n > 0 { // both names of exactly n bytes
		a, b = verifBytes("a", n), verifBytes("b", n)
		if p := verifParam("fixed"); p != "" { // one concrete name against every other name of n bytes
			a = []byte(p)
		}
		for _, c := range b {
			verifAssume(verifAnd(c > 0x20, c < 0x7f))
		}
	} else {
		a = verifBytes("a", 1+verifChoice("alen", 3))
		b = verifBytes("b", 1+verifChoice("blen", 3))
	}
	verifAssume(verifC19Differ(a, b))
	t1, t2 := verifUint32("t1"), verifUint32("t2")
	verifAssume(verifAnd(t2 > 0, t2 <= t1))
	verifAssert(Ordered(a, t1) == nil, "first-point-of-a-name-accepted")
	verifAssert(Ordered(b, t2) == nil, "distinct-short-names-never-share-a-register")
	verifAssert(Ordered(a, t1) != nil, "register-of-first-name-unaffected")
	verifCover("end")
}

// VerifC19Concurrent: two dispatchers validate points of the same name at the same time (every input
// connection runs Table.Dispatch in its own goroutine). The interleaving is a decision variable: the engine
// may switch goroutines before every synchronisation operation, up to "preemptions" times per run. Whatever
// the schedule, the two outcomes must be explained by one of the two serial orders (linearizable to a
// max-register), and a third call afterwards must see the maximum of what was accepted.
func VerifC19Concurrent() {
	key := verifBytes("key", 2)
	key2 := append([]byte{}, key...)
	ts1, ts2, ts3 := verifUint32("ts1"), verifUint32("ts2"), verifUint32("ts3")
	var e1, e2 error
	done := make(chan bool, 2)
	verifPreemptions(verifParamInt("preemptions", 1))
	go func() { e1 = Ordered(key, ts1); done <- true }()
	go func() { e2 = Ordered(key2, ts2); done <- true }()
	<-done
	<-done
	verifPreemptions(0)
	a1, a2 := e1 == nil, e2 == nil
	// serial order 1,2: first accepted iff ts1 > 0, second iff ts2 > max(accepted so far); and vice versa
	max12 := uint32(0)
	if ts1 > 0 {
		max12 = ts1
	}
	max21 := uint32(0)
	if ts2 > 0 {
		max21 = ts2
	}
	ok12 := verifAnd(a1 == (ts1 > 0), a2 == (ts2 > max12))
	ok21 := verifAnd(a2 == (ts2 > 0), a1 == (ts1 > max21))
	verifAssert(verifOr(ok12, ok21), "concurrent-calls-same-name-explained-by-a-serial-order")
	top := uint32(0)
	if a1 && ts1 > top {
		top = ts1
	}
	if a2 && ts2 > top {
		top = ts2
	}
	e3 := Ordered(key, ts3)
	verifAssert((e3 == nil) == (ts3 > top), "after-concurrent-calls-register-holds-newest-accepted")
	verifCover("end")
}
