//go:build verif

package matcher

import (
	"bytes"
	"regexp"
)

// spec: the documented conjunction, written independently (no regex here)
func verifSpecLiteral(name, prefix, notPrefix, sub, notSub []byte) bool {
	ok := true
	if len(prefix) > 0 && !(len(name) >= len(prefix) && bytes.Equal(name[:len(prefix)], prefix)) {
		ok = false
	}
	if len(notPrefix) > 0 && len(name) >= len(notPrefix) && bytes.Equal(name[:len(notPrefix)], notPrefix) {
		ok = false
	}
	if len(sub) > 0 {
		found := false
		for i := 0; i+len(sub) <= len(name); i++ {
			if bytes.Equal(name[i:i+len(sub)], sub) {
				found = true
			}
		}
		if !found {
			ok = false
		}
	}
	if len(notSub) > 0 {
		for i := 0; i+len(notSub) <= len(name); i++ {
			if bytes.Equal(name[i:i+len(notSub)], notSub) {
				ok = false
			}
		}
	}
	return ok
}

// VerifC03Literal: Match == conjunction of the four literal options, all symbolic.
func VerifC03Literal() {
	nl := verifChoice("namelen", 5)
	name := verifBytes("name", nl)
	prefix := verifString("prefix", verifChoice("plen", 3))
	notPrefix := verifString("notPrefix", verifChoice("nplen", 3))
	sub := verifString("sub", verifChoice("slen", 3))
	notSub := verifString("notSub", verifChoice("nslen", 3))
	m, err := New(prefix, notPrefix, sub, notSub, "", "")
	verifAssert(err == nil, "new-no-error")
	got := m.Match(name)
	want := verifSpecLiteral(name, []byte(prefix), []byte(notPrefix), []byte(sub), []byte(notSub))
	verifAssert(got == want, "match-equals-spec")
	verifCover("end")
}

// VerifC03Regex: Match == spec for the concrete regex / notRegex given as parameters, with the
// literal options symbolic too. The spec side calls the regexp library without any shortcut.
func VerifC03Regex() {
	maxlen := 6
	if verifParam("maxlen") != "" {
		maxlen = len(verifParam("maxlen"))
	}
	nl := verifChoice("namelen", maxlen+1)
	name := verifBytes("name", nl)
	for _, b := range name {
		verifAssume(b < 0x80)
	}
	regex := verifParam("regex")
	notRegex := verifParam("notRegex")
	prefix := verifString("prefix", verifChoice("plen", 2))
	notSub := verifString("notSub", verifChoice("nslen", 2))
	m, err := New(prefix, "", "", notSub, regex, notRegex)
	if err != nil {
		verifCover("compile-error")
		return
	}
	got := m.Match(name)
	want := verifSpecLiteral(name, []byte(prefix), nil, nil, []byte(notSub))
	if regex != "" {
		want = want && verifRegexSpec(regex, name)
	}
	if notRegex != "" {
		want = want && !verifRegexSpec(notRegex, name)
	}
	verifAssert(got == want, "match-equals-spec")
	verifCover("end")
}

func verifRegexSpec(pat string, name []byte) bool {
	return regexp.MustCompile(pat).Match(name)
}

// VerifC03Combined: all six options on one filter at once -- prefix and notPrefix of 0..2 free bytes, sub and notSub of
// 0..1 free bytes, a concrete regex and a concrete notRegex -- against the conjunction written out here. Options
// that look redundant next to each other (a notPrefix that extends the literal head of an anchored notRegex, a
// prefix that a regex's own literal head already implies) are where an internal shortcut would drop one of them.
func VerifC03Combined() {
	nl := verifChoice("namelen", len(verifParam("maxlen"))+1)
	name := verifBytes("name", nl)
	for _, b := range name {
		verifAssume(b < 0x80)
	}
	regex, notRegex := verifParam("regex"), verifParam("notRegex")
	prefix := verifString("prefix", verifChoice("plen", 3))
	notPrefix := verifString("notPrefix", verifChoice("nplen", 3))
	sub := verifString("sub", verifChoice("slen", 2))
	notSub := verifString("notSub", verifChoice("nslen", 2))
	m, err := New(prefix, notPrefix, sub, notSub, regex, notRegex)
	if err != nil {
		verifCover("compile-error")
		return
	}
	got := m.Match(name)
	want := verifSpecLiteral(name, []byte(prefix), []byte(notPrefix), []byte(sub), []byte(notSub))
	if regex != "" {
		want = want && verifRegexSpec(regex, name)
	}
	if notRegex != "" {
		want = want && !verifRegexSpec(notRegex, name)
	}
	verifAssert(got == want, "match-equals-spec")
	verifCover("end")
}
