//go:build verif

package cfg

import (
	"github.com/BurntSushi/toml"
	"github.com/grafana/carbon-relay-ng/aggregator"
)

// VerifC20Sections: several sections of the same kind in one configuration are independent: every
// aggregation / rewriter / blacklist entry is built from its own section only (an option omitted in one
// section takes its default, not the value a neighbouring section gave it), in file order.
func VerifC20Sections() {
	aggregator.InitMetrics()
	tab := &verifC20Table{}
	mk := func(tag string) Aggregation {
		return Aggregation{
			Function: "sum",
			Regex:    "^a(.*)",
			Prefix:   verifC20Sym(tag+".prefix", verifChoice(tag+".prefixlen", 2)),
			Sub:      verifC20Sym(tag+".sub", verifChoice(tag+".sublen", 2)),
			Substr:   verifC20Sym(tag+".substr", verifChoice(tag+".substrlen", 2)),
			Format:   "o.$1",
			Cache:    verifBool(tag + ".cache"),
			DropRaw:  verifBool(tag + ".dropRaw"),
			Interval: 10,
			Wait:     20,
		}
	}
	acs := []Aggregation{mk("s0"), mk("s1")}
	err := InitAggregation(tab, Config{Aggregation: acs})
	verifAssert(err == nil, "sections/agg/accepted")
	if err != nil {
		return
	}
	verifAssert(len(tab.Aggregators) == len(acs), "sections/agg/count")
	if len(tab.Aggregators) != len(acs) {
		return
	}
	tags := []string{"sections/agg0", "sections/agg1"}
	for i, ac := range acs {
		sub := ac.Substr
		if len(ac.Sub) > 0 {
			sub = ac.Sub
		}
		c20AggCompare(tags[i], tab.Aggregators[i], ac.Function, ac.Prefix, ac.NotPrefix, sub, ac.NotSub, ac.Regex, ac.NotRegex, ac.Format, ac.Cache, ac.Interval, ac.Wait, ac.DropRaw)
	}

	verifCover("end")
}

// VerifC20RewriterSections: two rewriter sections are independent and keep their file order.
func VerifC20RewriterSections() {
	var err error
	// two rewriter sections
	tab2 := &verifC20Table{}
	rws := []Rewriter{
		{Old: "ab", New: verifC20Sym("r0.new", verifChoice("r0.newlen", 2)), Not: verifC20Sym("r0.not", verifChoice("r0.notlen", 2)), Max: -1},
		{Old: "cd", New: verifC20Sym("r1.new", verifChoice("r1.newlen", 2)), Not: verifC20Sym("r1.not", verifChoice("r1.notlen", 2)), Max: verifChoice("r1.max", 3)},
	}
	err = InitRewrite(tab2, Config{Rewriter: rws})
	verifAssert(err == nil && len(tab2.Rewriters) == 2, "sections/rewriter/count")
	if err == nil && len(tab2.Rewriters) == 2 {
		c20RWCompare("sections/rw0", tab2.Rewriters[0], rws[0].Old, rws[0].New, rws[0].Not, rws[0].Max)
		c20RWCompare("sections/rw1", tab2.Rewriters[1], rws[1].Old, rws[1].New, rws[1].Not, rws[1].Max)
	}
	verifCover("end")
}

// VerifC20WholeConfig: a configuration with one entry of every kind (an init command, a blacklist line, an
// aggregation, a rewriter and a carbon route section) through InitTable, the function the program calls: every kind
// is applied (none skipped, none applied twice), the entries carry their own settings, and an error in any one of
// the five parts makes InitTable fail. Which part is broken (or none) is chosen by the solver.
func VerifC20WholeConfig() {
	aggregator.InitMetrics()
	var c Config
	c.Init.Cmds = []string{"addBlack prefix fromcmd"}
	c.BlackList = []string{"sub fromlist"}
	c.Aggregation = []Aggregation{{Function: "sum", Regex: "^a(.*)", Format: "o.$1", Interval: 10, Wait: 20}}
	c.Rewriter = []Rewriter{{Old: "ab", New: "cd", Max: -1}}
	c.Route = []Route{{Key: "r1", Type: "sendAllMatch", Prefix: "p", Destinations: []string{"127.0.0.1:2003 spool=false"}}}
	broken := verifChoice("broken-part", 6) // 0 = none
	switch broken {
	case 1:
		c.Init.Cmds = []string{"noSuchCommand x"}
	case 2:
		c.BlackList = []string{"nosuchmethod x"}
	case 3:
		c.Aggregation[0].Function = "nosuchfunction"
	case 4:
		c.Rewriter[0].Old = ""
	case 5:
		c.Route[0].Type = "nosuchtype"
	}
	tab := &verifC20Table{}
	err := InitTable(tab, c, toml.MetaData{})
	if broken != 0 {
		verifAssert(err != nil, "whole-config/error-in-any-part-is-reported")
		verifCover("end")
		return
	}
	verifAssert(err == nil, "whole-config/accepted")
	if err != nil {
		return
	}
	verifAssert(len(tab.Blacklist) == 2, "whole-config/init-command-and-blacklist-line-both-applied-once")
	verifAssert(len(tab.Aggregators) == 1, "whole-config/aggregation-applied-once")
	verifAssert(len(tab.Rewriters) == 1, "whole-config/rewriter-applied-once")
	verifAssert(len(tab.Routes) == 1, "whole-config/route-applied-once")
	if len(tab.Blacklist) == 2 {
		c20MatcherCompare("whole-config/init-command-first", *tab.Blacklist[0], "fromcmd", "", "", "", "", "")
		c20MatcherCompare("whole-config/blacklist-line", *tab.Blacklist[1], "", "", "fromlist", "", "", "")
	}
	if len(tab.Aggregators) == 1 {
		c20AggCompare("whole-config/agg", tab.Aggregators[0], "sum", "", "", "", "", "^a(.*)", "", "o.$1", false, 10, 20, false)
	}
	if len(tab.Rewriters) == 1 {
		c20RWCompare("whole-config/rw", tab.Rewriters[0], "ab", "cd", "", -1)
	}
	if len(tab.Routes) == 1 {
		snap := tab.Routes[0].Snapshot()
		verifAssert(snap.Key == "r1" && snap.Type == "sendAllMatch" && snap.Matcher.Prefix == "p" && len(snap.Dests) == 1, "whole-config/route")
	}
	verifCover("end")
}
