//go:build verif

package cfg

import "github.com/grafana/carbon-relay-ng/aggregator"

// VerifC20Sections: several sections of the same kind in one configuration are independent: every
// aggregation / rewriter / blacklist entry is built from its own section only (an option omitted in one
// section takes its default, not the value a neighbouring section gave it), in file order.
func VerifC20Sections() {
	aggregator.InitMetrics()
	tab := &verifC20Table{}
	mk := func(tag string) Aggregation {
		return Aggregation{
			Function: "sum",
			Regex:    "^a(.*)",
			Prefix:   verifC20Sym(tag+".prefix", verifChoice(tag+".prefixlen", 2)),
			Sub:      verifC20Sym(tag+".sub", verifChoice(tag+".sublen", 2)),
			Substr:   verifC20Sym(tag+".substr", verifChoice(tag+".substrlen", 2)),
			Format:   "o.$1",
			Cache:    verifBool(tag + ".cache"),
			DropRaw:  verifBool(tag + ".dropRaw"),
			Interval: 10,
			Wait:     20,
		}
	}
	acs := []Aggregation{mk("s0"), mk("s1")}
	err := InitAggregation(tab, Config{Aggregation: acs})
	verifAssert(err == nil, "sections/agg/accepted")
	if err != nil {
		return
	}
	verifAssert(len(tab.Aggregators) == len(acs), "sections/agg/count")
	if len(tab.Aggregators) != len(acs) {
		return
	}
	tags := []string{"sections/agg0", "sections/agg1"}
	for i, ac := range acs {
		sub := ac.Substr
		if len(ac.Sub) > 0 {
			sub = ac.Sub
		}
		c20AggCompare(tags[i], tab.Aggregators[i], ac.Function, ac.Prefix, ac.NotPrefix, sub, ac.NotSub, ac.Regex, ac.NotRegex, ac.Format, ac.Cache, ac.Interval, ac.Wait, ac.DropRaw)
	}

	verifCover("end")
}

// VerifC20RewriterSections: two rewriter sections are independent and keep their file order.
func VerifC20RewriterSections() {
	var err error
	// two rewriter sections
	tab2 := &verifC20Table{}
	rws := []Rewriter{
		{Old: "ab", New: verifC20Sym("r0.new", verifChoice("r0.newlen", 2)), Not: verifC20Sym("r0.not", verifChoice("r0.notlen", 2)), Max: -1},
		{Old: "cd", New: verifC20Sym("r1.new", verifChoice("r1.newlen", 2)), Not: verifC20Sym("r1.not", verifChoice("r1.notlen", 2)), Max: verifChoice("r1.max", 3)},
	}
	err = InitRewrite(tab2, Config{Rewriter: rws})
	verifAssert(err == nil && len(tab2.Rewriters) == 2, "sections/rewriter/count")
	if err == nil && len(tab2.Rewriters) == 2 {
		c20RWCompare("sections/rw0", tab2.Rewriters[0], rws[0].Old, rws[0].New, rws[0].Not, rws[0].Max)
		c20RWCompare("sections/rw1", tab2.Rewriters[1], rws[1].Old, rws[1].New, rws[1].Not, rws[1].Max)
	}
	verifCover("end")
}
