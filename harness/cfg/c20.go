//go:build verif

package cfg

// C20 (TOML sections vs commands): a *decoded* cfg.Config is the input (BurntSushi/toml's text decoding is
// outside). InitBlacklist / InitAggregation / InitRewrite / InitRoutes must produce the table entry the
// documentation describes (docs/config.md), with unspecified options at their documented defaults, and --
// where the command syntax has the option (docs/tcp-admin-interface.md) -- the same entry as the
// equivalent command through imperatives.Apply.

import (
	"strings"
	"time"

	"github.com/BurntSushi/toml"
	"github.com/grafana/carbon-relay-ng/aggregator"
	"github.com/grafana/carbon-relay-ng/destination"
	"github.com/grafana/carbon-relay-ng/imperatives"
	"github.com/grafana/carbon-relay-ng/matcher"
	"github.com/grafana/carbon-relay-ng/rewriter"
	"github.com/grafana/carbon-relay-ng/route"
	"github.com/grafana/carbon-relay-ng/table"
)

// ---- native twins of engine-side verif functions ---------------------------------------------------------

func verifDigits(name string, n int) string {
	b := verifBytes(name, n)
	for _, c := range b {
		verifAssume('0' <= c && c <= '9')
	}
	return string(b)
}

// verifStubFunc: in the engine, calls of target run the Go model instead; natively the real code runs.
func verifStubFunc(target, model string) {}

const c20Mod = "github.com/grafana/carbon-relay-ng/"

// C20 stops at the route.GrafanaNetConfig object: file parsing and the HTTP workers are modelled
// (harness/route/c20.go, harness/mtconf/c20.go).
func verifC20Stubs() {
	verifStubFunc(c20Mod+"route.getSchemas", c20Mod+"route.VerifC20GetSchemasModel")
	verifStubFunc(c20Mod+"pkg/mt-conf.ReadAggregations", c20Mod+"pkg/mt-conf.VerifC20ReadAggregationsModel")
	verifStubFunc(c20Mod+"route.NewGrafanaNet", c20Mod+"route.VerifC20NewGrafanaNetModel")
}

func verifC20Num(d string) int {
	v := 0
	for i := 0; i < len(d); i++ {
		v = v*10 + int(d[i]-'0')
	}
	return v
}

const verifC20SpoolDir = "/tmp/verif-c20-spool"

type verifC20Table struct{ table.MockTable }

func (t *verifC20Table) GetSpoolDir() string { return verifC20SpoolDir }

// verifC20Sym: symbolic string of 0 or 1 printable non-space bytes (n = 0 or 1).
func verifC20Sym(name string, n int) string {
	s := verifString(name, n)
	for i := 0; i < len(s); i++ {
		verifAssume(s[i] > 0x20 && s[i] < 0x7f)
	}
	return s
}

func c20MatcherCompare(tag string, m matcher.Matcher, prefix, notPrefix, sub, notSub, regex, notRegex string) {
	verifAssert(m.Prefix == prefix, tag+"/prefix")
	verifAssert(m.NotPrefix == notPrefix, tag+"/notPrefix")
	verifAssert(m.Sub == sub, tag+"/sub")
	verifAssert(m.NotSub == notSub, tag+"/notSub")
	verifAssert(m.Regex == regex, tag+"/regex")
	verifAssert(m.NotRegex == notRegex, tag+"/notRegex")
}

func c20MatcherEqual(tag string, a, b matcher.Matcher) {
	c20MatcherCompare(tag, a, b.Prefix, b.NotPrefix, b.Sub, b.NotSub, b.Regex, b.NotRegex)
}

// ---- blacklist -------------------------------------------------------------------------------------------

var c20BlackMethods = []string{"prefix", "notPrefix", "sub", "notSub", "regex", "notRegex"}

// VerifC20Blacklist: `blacklist = ['<method> <expression>']` sets exactly the named matcher option to the
// whole expression (which may contain spaces); unknown methods and entries without expression are errors.
func VerifC20Blacklist() {
	k := verifChoice("method", len(c20BlackMethods)+2)
	tab := &verifC20Table{}
	if k == len(c20BlackMethods) {
		err := InitBlacklist(tab, Config{BlackList: []string{"contains foo"}})
		verifAssert(err != nil && len(tab.Blacklist) == 0, "blacklist/unknown-method-rejected")
		return
	}
	if k == len(c20BlackMethods)+1 {
		err := InitBlacklist(tab, Config{BlackList: []string{"prefix"}})
		verifAssert(err != nil && len(tab.Blacklist) == 0, "blacklist/missing-expression-rejected")
		return
	}
	var val string
	if k < 4 {
		val = verifString("val", 1+verifChoice("vlen", 3))
		for i := 0; i < len(val); i++ {
			verifAssume(val[i] >= 0x20 && val[i] < 0x7f)
		}
	} else {
		val = []string{`^foo\..*\.cpu+`, "a b|c"}[verifChoice("re", 2)]
	}
	// a second entry: entries are independent and keep their order
	err := InitBlacklist(tab, Config{BlackList: []string{c20BlackMethods[k] + " " + val, "sub second"}})
	verifAssert(err == nil, "blacklist/accepted")
	if err != nil {
		return
	}
	verifAssert(len(tab.Blacklist) == 2, "blacklist/count")
	want := [6]string{}
	want[k] = val
	c20MatcherCompare("blacklist/entry", *tab.Blacklist[0], want[0], want[1], want[2], want[3], want[4], want[5])
	c20MatcherCompare("blacklist/second-entry", *tab.Blacklist[1], "", "", "second", "", "", "")
	verifCover("end")
}

// VerifC20BlacklistEquiv: section entry == `addBlack <method> <expression>` (expressions without space).
func VerifC20BlacklistEquiv() {
	k := verifChoice("method", len(c20BlackMethods))
	val := []string{"collectd.localhost", `^foo\..*\.cpu+`, "a=b"}[verifChoice("val", 3)]
	t1, t2 := &verifC20Table{}, &verifC20Table{}
	e1 := InitBlacklist(t1, Config{BlackList: []string{c20BlackMethods[k] + " " + val}})
	e2 := imperatives.Apply(t2, "addBlack "+c20BlackMethods[k]+" "+val)
	verifAssert(e1 == nil && e2 == nil, "blacklist-equiv/accepted")
	if e1 != nil || e2 != nil {
		return
	}
	verifAssert(len(t1.Blacklist) == 1 && len(t2.Blacklist) == 1, "blacklist-equiv/count")
	c20MatcherEqual("blacklist-equiv", *t1.Blacklist[0], *t2.Blacklist[0])
	want := [6]string{}
	want[k] = val
	c20MatcherCompare("blacklist-equiv/spec", *t2.Blacklist[0], want[0], want[1], want[2], want[3], want[4], want[5])
	verifCover("end")
}

// ---- aggregation -----------------------------------------------------------------------------------------

var c20AggFuns = []string{"avg", "count", "delta", "derive", "last", "max", "min", "stdev", "sum", "percentiles"}

func c20AggCompare(tag string, a *aggregator.Aggregator, fun, prefix, notPrefix, sub, notSub, regex, notRegex, format string, cache bool, interval, wait int, dropRaw bool) {
	verifAssert(a.Fun == fun, tag+"/function")
	c20MatcherCompare(tag, a.Matcher, prefix, notPrefix, sub, notSub, regex, notRegex)
	verifAssert(a.OutFmt == format, tag+"/format")
	verifAssert(a.Cache == cache, tag+"/cache")
	verifAssert(a.Interval == uint(interval), tag+"/interval")
	verifAssert(a.Wait == uint(wait), tag+"/wait")
	verifAssert(a.DropRaw == dropRaw, tag+"/dropRaw")
}

// VerifC20AggSection: every field of an [[aggregation]] section reaches the aggregator; `sub` wins over the
// legacy `substr`; omitted string options are empty; cache / dropRaw as given.
func VerifC20AggSection() {
	aggregator.InitMetrics()
	f := verifChoice("function", len(c20AggFuns)+1)
	tab := &verifC20Table{}
	if f == len(c20AggFuns) {
		err := InitAggregation(tab, Config{Aggregation: []Aggregation{{Function: "median", Regex: "a", Format: "b", Interval: 10, Wait: 20}}})
		verifAssert(err != nil && len(tab.Aggregators) == 0, "agg/unknown-function-rejected")
		return
	}
	ac := Aggregation{
		Function:  c20AggFuns[f],
		Regex:     `^stats\.timers\.(app|proxy|static)[0-9]+\.requests\.(.*)`,
		NotRegex:  []string{"", `\.tmp$`}[f%2],
		Prefix:    verifC20Sym("prefix", verifChoice("prefixlen", 2)),
		NotPrefix: verifC20Sym("notPrefix", verifChoice("notPrefixlen", 2)),
		Sub:       verifC20Sym("sub", verifChoice("sublen", 2)),
		Substr:    verifC20Sym("substr", verifChoice("substrlen", 2)),
		NotSub:    verifC20Sym("notSub", verifChoice("notSublen", 2)),
		Format:    "stats.timers._sum_$1.requests.$2" + verifC20Sym("fmt", 1),
		Cache:     verifBool("cache"),
		DropRaw:   verifBool("dropRaw"),
		Interval:  verifInt("interval", 1, 86400),
		Wait:      verifInt("wait", 0, 86400),
	}
	err := InitAggregation(tab, Config{Aggregation: []Aggregation{ac}})
	verifAssert(err == nil, "agg/accepted")
	if err != nil {
		return
	}
	verifAssert(len(tab.Aggregators) == 1, "agg/count")
	sub := ac.Substr
	if len(ac.Sub) > 0 { // "sub" gets preference if both are defined
		sub = ac.Sub
	}
	c20AggCompare("agg/field", tab.Aggregators[0], ac.Function, ac.Prefix, ac.NotPrefix, sub, ac.NotSub, ac.Regex, ac.NotRegex, ac.Format, ac.Cache, ac.Interval, ac.Wait, ac.DropRaw)
	verifCover("end")
}

// VerifC20AggEquiv: section == `addAgg <func> <match> <fmt> <interval> <wait> [cache=] [dropRaw=]`; the command
// defaults are cache=true, dropRaw=false.
func VerifC20AggEquiv() {
	aggregator.InitMetrics()
	f := verifChoice("function", 9) // the command has no "percentiles"
	cd := verifChoice("cache-dropRaw", 9)
	shape := (f + cd) % 6
	regex := `^stats\.timers\.(app|proxy|static)[0-9]+\.requests\.(.*)`
	format := "stats.timers._sum_$1.requests.$2"
	ac := Aggregation{Function: c20AggFuns[f], Regex: regex, Format: format}
	match := "regex=" + regex
	switch shape {
	case 1:
		ac.Sub = "requests"
		match += " sub=requests"
	case 2:
		ac.Prefix, ac.NotSub = "stats.", "tmp"
		match = "prefix=stats. " + match + " notSub=tmp"
	case 3:
		ac.NotPrefix, ac.NotRegex = "stats.x", "y$"
		match = "notRegex=y$ notPrefix=stats.x " + match
	case 4:
		ac.Prefix, ac.NotPrefix, ac.Sub, ac.NotSub, ac.NotRegex = "p", "np", "s", "ns", "nr"
		match = "prefix=p notPrefix=np sub=s notSub=ns " + match + " notRegex=nr"
	case 5:
		match = regex // old syntax: a raw regex
	}
	iv, wt := verifPosDigits("interval", 1+f%2), verifDigits("wait", 2-f%2)
	ac.Interval, ac.Wait = verifC20Num(iv), verifC20Num(wt)
	verifAssume(ac.Interval >= 1)
	cmd := "addAgg " + ac.Function + " " + match + " " + format + " " + iv + " " + wt
	wantCache, wantDrop := true, false // command defaults
	switch cd % 3 {
	case 1:
		cmd += " cache=true"
	case 2:
		cmd += " cache=false"
		wantCache = false
	}
	switch cd / 3 {
	case 1:
		cmd += " dropRaw=true"
		wantDrop = true
	case 2:
		cmd += " dropRaw=false"
	}
	ac.Cache, ac.DropRaw = wantCache, wantDrop
	t1, t2 := &verifC20Table{}, &verifC20Table{}
	e1 := InitAggregation(t1, Config{Aggregation: []Aggregation{ac}})
	e2 := imperatives.Apply(t2, cmd)
	verifAssert(e1 == nil && e2 == nil, "agg-equiv/accepted")
	if e1 != nil || e2 != nil {
		return
	}
	verifAssert(len(t1.Aggregators) == 1 && len(t2.Aggregators) == 1, "agg-equiv/count")
	a, b := t1.Aggregators[0], t2.Aggregators[0]
	c20AggCompare("agg-equiv/section-vs-command", a, b.Fun, b.Matcher.Prefix, b.Matcher.NotPrefix, b.Matcher.Sub, b.Matcher.NotSub, b.Matcher.Regex, b.Matcher.NotRegex, b.OutFmt, b.Cache, int(b.Interval), int(b.Wait), b.DropRaw)
	c20AggCompare("agg-equiv/command-vs-spec", b, ac.Function, ac.Prefix, ac.NotPrefix, ac.Sub, ac.NotSub, regex, ac.NotRegex, format, wantCache, ac.Interval, ac.Wait, wantDrop)
	verifCover("end")
}

// ---- rewriter --------------------------------------------------------------------------------------------

func c20RWCompare(tag string, rw rewriter.RW, old, new, not string, max int) {
	verifAssert(rw.Old == old, tag+"/old")
	verifAssert(rw.New == new, tag+"/new")
	verifAssert(rw.Not == not, tag+"/not")
	verifAssert(rw.Max == max, tag+"/max")
}

// VerifC20RewriterSection: old / new / not / max of a [[rewriter]] section reach the rewriter unchanged.
func VerifC20RewriterSection() {
	tab := &verifC20Table{}
	var rc Rewriter
	if verifChoice("kind", 2) == 0 {
		rc = Rewriter{
			Old: "o" + verifC20Sym("old", verifChoice("oldlen", 2)),
			New: verifC20Sym("new", verifChoice("newlen", 3)),
			Not: verifC20Sym("not", verifChoice("notlen", 3)),
			Max: verifInt("max", -1, 1000),
		}
		if len(rc.Not) == 2 {
			verifAssume(rc.Not[0] != '/') // /../ is a regular expression: concrete case below
		}
	} else {
		rc = Rewriter{Old: "/a(.)c/", New: "x${1}y", Not: []string{"", "/^z/", "zz"}[verifChoice("not", 3)], Max: -1}
	}
	err := InitRewrite(tab, Config{Rewriter: []Rewriter{rc, {Old: "testold", New: "testnew", Not: "", Max: -1}}})
	verifAssert(err == nil, "rewriter/accepted")
	if err != nil {
		return
	}
	verifAssert(len(tab.Rewriters) == 2, "rewriter/count")
	c20RWCompare("rewriter/field", tab.Rewriters[0], rc.Old, rc.New, rc.Not, rc.Max)
	c20RWCompare("rewriter/second-entry", tab.Rewriters[1], "testold", "testnew", "", -1)
	verifCover("end")
}

// VerifC20RewriterEquiv: section with not='' == `addRewriter <old> <new> <max>` (the command has no `not`).
func VerifC20RewriterEquiv() {
	var rc Rewriter
	var max string
	switch verifChoice("case", 4) {
	case 0:
		rc, max = Rewriter{Old: "testold", New: "testnew", Max: -1}, "-1"
	case 1:
		rc, max = Rewriter{Old: "/a(.)c/", New: "x${1}y", Max: -1}, "-1"
	case 2:
		max = verifDigits("max", 2)
		rc = Rewriter{Old: "foo.", New: "bar_", Max: verifC20Num(max)}
	case 3:
		max = verifDigits("max", 1)
		rc = Rewriter{Old: "a", New: "$1", Max: verifC20Num(max)}
	}
	t1, t2 := &verifC20Table{}, &verifC20Table{}
	e1 := InitRewrite(t1, Config{Rewriter: []Rewriter{rc}})
	e2 := imperatives.Apply(t2, "addRewriter "+rc.Old+" "+rc.New+" "+max)
	verifAssert(e1 == nil && e2 == nil, "rewriter-equiv/accepted")
	if e1 != nil || e2 != nil {
		return
	}
	verifAssert(len(t1.Rewriters) == 1 && len(t2.Rewriters) == 1, "rewriter-equiv/count")
	b := t2.Rewriters[0]
	c20RWCompare("rewriter-equiv/section-vs-command", t1.Rewriters[0], b.Old, b.New, b.Not, b.Max)
	c20RWCompare("rewriter-equiv/command-vs-spec", b, rc.Old, rc.New, "", rc.Max)
	verifCover("end")
}

// ---- carbon routes ---------------------------------------------------------------------------------------

func c20DestCompare(tag string, g, w destination.VerifDestFieldsT) {
	verifAssert(g.Prefix == w.Prefix, tag+"/prefix")
	verifAssert(g.NotPrefix == w.NotPrefix, tag+"/notPrefix")
	verifAssert(g.Sub == w.Sub, tag+"/sub")
	verifAssert(g.NotSub == w.NotSub, tag+"/notSub")
	verifAssert(g.Regex == w.Regex, tag+"/regex")
	verifAssert(g.NotRegex == w.NotRegex, tag+"/notRegex")
	verifAssert(g.Addr == w.Addr, tag+"/addr")
	verifAssert(g.Instance == w.Instance, tag+"/instance")
	verifAssert(g.SpoolDir == w.SpoolDir, tag+"/spoolDir")
	verifAssert(g.Key == w.Key, tag+"/key")
	verifAssert(g.RouteName == w.RouteName, tag+"/routeName")
	verifAssert(g.Spool == w.Spool, tag+"/spool")
	verifAssert(g.Pickle == w.Pickle, tag+"/pickle")
	verifAssert(g.PeriodFlush == w.PeriodFlush, tag+"/flush")
	verifAssert(g.PeriodReConn == w.PeriodReConn, tag+"/reconn")
	verifAssert(g.ConnBufSize == w.ConnBufSize, tag+"/connbuf")
	verifAssert(g.IoBufSize == w.IoBufSize, tag+"/iobuf")
	verifAssert(g.SpoolBufSize == w.SpoolBufSize, tag+"/spoolbuf")
	verifAssert(g.SpoolMaxBytesPerFile == w.SpoolMaxBytesPerFile, tag+"/spoolmaxbytesperfile")
	verifAssert(g.SpoolSyncEvery == w.SpoolSyncEvery, tag+"/spoolsyncevery")
	verifAssert(g.SpoolSyncPeriod == w.SpoolSyncPeriod, tag+"/spoolsyncperiod")
	verifAssert(g.SpoolSleep == w.SpoolSleep, tag+"/spoolsleep")
	verifAssert(g.UnspoolSleep == w.UnspoolSleep, tag+"/unspoolsleep")
}

var c20RouteTypes = []string{"sendAllMatch", "sendFirstMatch", "consistentHashing"}

// c20CarbonDests: destination strings of a route with their documented meaning. Numeric values have
// symbolic digits.
func c20CarbonDests(typ, key string) (texts []string, want []destination.VerifDestFieldsT) {
	if typ == "consistentHashing" {
		fl, sp := verifPosDigits("flush", 2), verifDigits("spoolsleep", 1)
		texts = []string{"10.0.0.1:2003:a flush=" + fl + " pickle=true", "10.0.0.2:2003:b spoolsleep=" + sp, "10.0.0.3:2003"}
		w0 := destination.VerifC20DestDefaults(key, "10.0.0.1:2003:a", verifC20SpoolDir)
		destination.VerifC20DestSet(&w0, "flush", "", verifC20Num(fl), false)
		w0.Pickle = true
		w1 := destination.VerifC20DestDefaults(key, "10.0.0.2:2003:b", verifC20SpoolDir)
		destination.VerifC20DestSet(&w1, "spoolsleep", "", verifC20Num(sp), false)
		w2 := destination.VerifC20DestDefaults(key, "10.0.0.3:2003", verifC20SpoolDir)
		return texts, []destination.VerifDestFieldsT{w0, w1, w2}
	}
	rc, io := verifPosDigits("reconn", 3), verifPosDigits("iobuf", 2)
	texts = []string{"graphite.prod:2003 prefix=prod. spool=false pickle=true reconn=" + rc, "graphite.staging:2003 notRegex=^x iobuf=" + io + " unspoolsleep=7"}
	w0 := destination.VerifC20DestDefaults(key, "graphite.prod:2003", verifC20SpoolDir)
	w0.Prefix, w0.Pickle = "prod.", true
	destination.VerifC20DestSet(&w0, "reconn", "", verifC20Num(rc), false)
	w1 := destination.VerifC20DestDefaults(key, "graphite.staging:2003", verifC20SpoolDir)
	w1.NotRegex = "^x"
	destination.VerifC20DestSet(&w1, "iobuf", "", verifC20Num(io), false)
	destination.VerifC20DestSet(&w1, "unspoolsleep", "", 7, false)
	return texts, []destination.VerifDestFieldsT{w0, w1}
}

func c20RouteDestsCompare(tag string, r route.Route, want []destination.VerifDestFieldsT) bool {
	for i := range want {
		d, err := r.GetDestination(i)
		verifAssert(err == nil, tag+"/destination-present")
		if err != nil {
			return false
		}
		c20DestCompare(tag+"/dest"+string(rune('0'+i)), destination.VerifDestFields(d), want[i])
	}
	_, err := r.GetDestination(len(want))
	verifAssert(err != nil, tag+"/no-extra-destination")
	return true
}

// VerifC20RouteSection: a carbon [[route]] section: key, type, the six matcher options (`sub` over the legacy
// `substr`), destinations with their own options.
func VerifC20RouteSection() {
	typ := c20RouteTypes[verifChoice("type", len(c20RouteTypes))]
	others := verifChoice("otherslen", 2)
	rc := Route{
		Key:       "carbon-default",
		Type:      typ,
		Prefix:    verifC20Sym("prefix", others),
		NotPrefix: verifC20Sym("notPrefix", others),
		Sub:       verifC20Sym("sub", verifChoice("sublen", 2)),
		Substr:    verifC20Sym("substr", verifChoice("substrlen", 2)),
		NotSub:    verifC20Sym("notSub", others),
		Regex:     []string{"", "(Err/s|wait_time|logger)"}[others],
		NotRegex:  []string{"^z", ""}[others],
	}
	var want []destination.VerifDestFieldsT
	rc.Destinations, want = c20CarbonDests(typ, rc.Key)
	tab := &verifC20Table{}
	err := InitRoutes(tab, Config{Route: []Route{rc}}, toml.MetaData{})
	verifAssert(err == nil, "route/accepted")
	if err != nil {
		return
	}
	verifAssert(len(tab.Routes) == 1, "route/count")
	r := tab.Routes[0]
	snap := r.Snapshot()
	verifAssert(r.Key() == rc.Key && snap.Key == rc.Key, "route/key")
	verifAssert(snap.Type == typ, "route/type")
	sub := rc.Substr
	if len(rc.Sub) > 0 {
		sub = rc.Sub
	}
	c20MatcherCompare("route/matcher", snap.Matcher, rc.Prefix, rc.NotPrefix, sub, rc.NotSub, rc.Regex, rc.NotRegex)
	c20RouteDestsCompare("route", r, want)
	verifCover("end")
}

// VerifC20RouteEquiv: section == `addRoute <type> <key> [opts]  <dest>  <dest>...`.
func VerifC20RouteEquiv() {
	typ := c20RouteTypes[verifChoice("type", len(c20RouteTypes))]
	rc := Route{Key: "analytics", Type: typ}
	opts := ""
	switch verifChoice("routeopts", 4) {
	case 1:
		rc.Regex = "(Err/s|wait_time|logger)"
		opts = " regex=(Err/s|wait_time|logger)"
	case 2:
		rc.Sub = "="
		opts = " sub=="
	case 3:
		rc.Prefix, rc.NotPrefix, rc.Sub, rc.NotSub, rc.Regex, rc.NotRegex = "p.", "p.x", "s", "ns", "^r", "nr$"
		opts = " notRegex=nr$ regex=^r notSub=ns sub=s notPrefix=p.x prefix=p."
	}
	var want []destination.VerifDestFieldsT
	rc.Destinations, want = c20CarbonDests(typ, rc.Key)
	cmd := "addRoute " + typ + " " + rc.Key + opts + "  " + strings.Join(rc.Destinations, "  ")
	t1, t2 := &verifC20Table{}, &verifC20Table{}
	e1 := InitRoutes(t1, Config{Route: []Route{rc}}, toml.MetaData{})
	e2 := imperatives.Apply(t2, cmd)
	verifAssert(e1 == nil && e2 == nil, "route-equiv/accepted")
	if e1 != nil || e2 != nil {
		return
	}
	verifAssert(len(t1.Routes) == 1 && len(t2.Routes) == 1, "route-equiv/count")
	s1, s2 := t1.Routes[0].Snapshot(), t2.Routes[0].Snapshot()
	verifAssert(s1.Key == s2.Key && s1.Type == s2.Type && s2.Type == typ && s2.Key == rc.Key, "route-equiv/key-type")
	c20MatcherEqual("route-equiv/matcher", s1.Matcher, s2.Matcher)
	c20MatcherCompare("route-equiv/command-vs-spec/matcher", s2.Matcher, rc.Prefix, rc.NotPrefix, rc.Sub, rc.NotSub, rc.Regex, rc.NotRegex)
	c20RouteDestsCompare("route-equiv/section", t1.Routes[0], want)
	c20RouteDestsCompare("route-equiv/command", t2.Routes[0], want)
	verifCover("end")
}

// ---- grafanaNet routes -----------------------------------------------------------------------------------

const (
	c20Schemas = "../examples/storage-schemas.conf"
	c20Aggs    = "../examples/storage-aggregation.conf"
)

// documented defaults (docs/config.md "grafanaNet route")
func c20GrafanaNetDefaults(addr, apiKey string) route.GrafanaNetConfig {
	return route.GrafanaNetConfig{
		Addr: addr, ApiKey: apiKey, SchemasFile: c20Schemas, AggregationFile: c20Aggs,
		SSLVerify:        true,
		Spool:            false,
		Blocking:         false,
		Concurrency:      100,
		BufSize:          10000000, // 10M
		FlushMaxNum:      5000,
		FlushMaxWait:     500 * time.Millisecond,
		Timeout:          10000 * time.Millisecond,
		OrgID:            1,
		ErrBackoffMin:    100 * time.Millisecond,
		ErrBackoffFactor: 1.5,
	}
}

func c20GrafanaNetCompare(tag string, g, w route.GrafanaNetConfig) {
	verifAssert(g.Addr == w.Addr, tag+"/addr")
	verifAssert(g.ApiKey == w.ApiKey, tag+"/apiKey")
	verifAssert(g.SchemasFile == w.SchemasFile, tag+"/schemasFile")
	verifAssert(g.AggregationFile == w.AggregationFile, tag+"/aggregationFile")
	verifAssert(g.SSLVerify == w.SSLVerify, tag+"/sslverify")
	verifAssert(g.Spool == w.Spool, tag+"/spool")
	verifAssert(g.Blocking == w.Blocking, tag+"/blocking")
	verifAssert(g.Concurrency == w.Concurrency, tag+"/concurrency")
	verifAssert(g.BufSize == w.BufSize, tag+"/bufSize")
	verifAssert(g.FlushMaxNum == w.FlushMaxNum, tag+"/flushMaxNum")
	verifAssert(g.FlushMaxWait == w.FlushMaxWait, tag+"/flushMaxWait")
	verifAssert(g.Timeout == w.Timeout, tag+"/timeout")
	verifAssert(g.OrgID == w.OrgID, tag+"/orgId")
	verifAssert(g.ErrBackoffMin == w.ErrBackoffMin, tag+"/errBackoffMin")
	verifAssert(g.ErrBackoffFactor == w.ErrBackoffFactor, tag+"/errBackoffFactor")
}

// which of the 8 numeric options are present (non-zero) in the section
var c20GNMasks = []uint{0x00, 0xff, 0x55, 0xaa, 0x01, 0x02, 0x04, 0x08, 0x10, 0x20, 0x40, 0x80}

// VerifC20GrafanaNetSection: a grafanaNet [[route]] section: mandatory settings, matcher, numeric options in
// their documented units with "absent (0) means default", booleans through the decoder's metadata (absent
// means default, present means the given value, whatever the casing of the setting's name).
func VerifC20GrafanaNetSection() {
	verifC20Stubs()
	mask := c20GNMasks[verifChoice("present", len(c20GNMasks))]
	bools := verifChoice("bools", 5)
	num := func(bit uint, name string, hi int) int {
		if mask&(1<<bit) == 0 {
			return 0
		}
		return verifInt(name, 1, hi)
	}
	rc := Route{
		Key: "grafanaNet", Type: "grafanaNet",
		Addr: "http://localhost:1/metrics", ApiKey: "123:secret", SchemasFile: c20Schemas, AggregationFile: c20Aggs,
		Prefix: "p", NotPrefix: "np", Substr: "legacy", NotSub: "ns", Regex: "r", NotRegex: "nr",
		BufSize:       num(0, "bufSize", 1000),
		FlushMaxNum:   num(1, "flushMaxNum", 100000),
		FlushMaxWait:  num(2, "flushMaxWait", 100000),
		Timeout:       num(3, "timeout", 100000),
		Concurrency:   num(4, "concurrency", 4),
		OrgId:         num(5, "orgId", 1000000),
		ErrBackoffMin: num(6, "errBackoffMin", 100000),
	}
	if mask&0x80 != 0 {
		rc.ErrBackoffFactor = verifFloat64("errBackoffFactor")
		verifAssume(rc.ErrBackoffFactor >= 1)
		verifAssume(rc.ErrBackoffFactor <= 10)
	}
	w := c20GrafanaNetDefaults(rc.Addr, rc.ApiKey)
	if rc.BufSize != 0 {
		w.BufSize = rc.BufSize
	}
	if rc.FlushMaxNum != 0 {
		w.FlushMaxNum = rc.FlushMaxNum
	}
	if rc.FlushMaxWait != 0 {
		w.FlushMaxWait = time.Duration(rc.FlushMaxWait) * time.Millisecond // int (ms)
	}
	if rc.Timeout != 0 {
		w.Timeout = time.Duration(rc.Timeout) * time.Millisecond // int (ms)
	}
	if rc.Concurrency != 0 {
		w.Concurrency = rc.Concurrency
	}
	if rc.OrgId != 0 {
		w.OrgID = rc.OrgId
	}
	if rc.ErrBackoffMin != 0 {
		w.ErrBackoffMin = time.Duration(rc.ErrBackoffMin) * time.Millisecond // int (ms)
	}
	if mask&0x80 != 0 {
		w.ErrBackoffFactor = rc.ErrBackoffFactor
	}
	// what the decoder reports for this section: the settings the user wrote, with the user's casing
	section := map[string]interface{}{"key": rc.Key, "type": "grafanaNet"}
	other := map[string]interface{}{"key": "other", "type": "grafanaNet", "sslverify": false, "spool": true, "blocking": true}
	switch bools {
	case 1:
		rc.SslVerify, rc.Spool, rc.Blocking = true, true, true
		section["sslverify"], section["spool"], section["blocking"] = true, true, true
		w.SSLVerify, w.Spool, w.Blocking = true, true, true
	case 2:
		section["sslverify"], section["spool"], section["blocking"] = false, false, false
		w.SSLVerify, w.Spool, w.Blocking = false, false, false
	case 3:
		rc.Blocking = true
		section["sslVerify"], section["Blocking"] = false, true
		w.SSLVerify, w.Blocking = false, true
	case 4:
		rc.Spool, rc.SslVerify = true, true
		section["SPOOL"], section["SSLVERIFY"] = true, true
		w.Spool = true
	}
	meta := toml.MetaData{Mapping: map[string]interface{}{"route": []map[string]interface{}{other, section}}}
	tab := &verifC20Table{}
	err := InitRoutes(tab, Config{Route: []Route{rc}}, meta)
	verifAssert(err == nil, "grafananet/accepted")
	if err != nil {
		return
	}
	verifAssert(len(tab.Routes) == 1, "grafananet/count")
	r, ok := tab.Routes[0].(*route.GrafanaNet)
	verifAssert(ok, "grafananet/type")
	if !ok {
		return
	}
	verifAssert(r.Key() == rc.Key, "grafananet/key")
	c20MatcherCompare("grafananet/matcher", r.Snapshot().Matcher, "p", "np", "legacy", "ns", "r", "nr")
	c20GrafanaNetCompare("grafananet/cfg", r.Cfg, w)
	verifCover("end")
}

// VerifC20GrafanaNetEquiv: section == `addRoute grafanaNet key [opts]  addr apiKey schemasFile aggregationFile
// [spool= sslverify= blocking= concurrency= bufSize= flushMaxNum= flushMaxWait= timeout= orgId= errBackoffMin=
// errBackoffFactor=]`, every option with a symbolic-digit value, in either order, or none at all.
func VerifC20GrafanaNetEquiv() {
	verifC20Stubs()
	rc := Route{Key: "gn", Type: "grafanaNet", Addr: "https://host.example/graphite/metrics", ApiKey: "apiKey", SchemasFile: c20Schemas, AggregationFile: c20Aggs, Sub: "sub"}
	w := c20GrafanaNetDefaults(rc.Addr, rc.ApiKey)
	section := map[string]interface{}{"key": rc.Key, "type": "grafanaNet"}
	cmd := "addRoute grafanaNet gn sub=sub  " + rc.Addr + " " + rc.ApiKey + " " + c20Schemas + " " + c20Aggs
	mode := verifChoice("options", 3)
	if mode > 0 {
		c, b, n, fw, to, o, e := verifDigits("concurrency", 1), verifDigits("bufSize", 3), verifDigits("flushMaxNum", 3), verifDigits("flushMaxWait", 2), verifDigits("timeout", 3), verifDigits("orgId", 2), verifDigits("errBackoffMin", 2)
		rc.Concurrency, rc.BufSize, rc.FlushMaxNum, rc.FlushMaxWait, rc.Timeout, rc.OrgId, rc.ErrBackoffMin = verifC20Num(c), verifC20Num(b), verifC20Num(n), verifC20Num(fw), verifC20Num(to), verifC20Num(o), verifC20Num(e)
		// 0 means "default" in a section but 0 in a command; orgId=0 is rejected by the command
		verifAssume(rc.Concurrency >= 1)
		verifAssume(rc.Concurrency <= 4) // natively every connection is a worker
		verifAssume(rc.BufSize >= 1)
		verifAssume(rc.FlushMaxNum >= 1)
		verifAssume(rc.FlushMaxWait >= 1)
		verifAssume(rc.Timeout >= 1)
		verifAssume(rc.OrgId >= 1)
		verifAssume(rc.ErrBackoffMin >= 1)
		rc.ErrBackoffFactor = 1.8
		rc.SslVerify, rc.Spool, rc.Blocking = false, true, true
		section["sslverify"], section["spool"], section["blocking"] = false, true, true
		optv := []string{"spool=true", "sslverify=false", "blocking=true", "concurrency=" + c, "bufSize=" + b, "flushMaxNum=" + n, "flushMaxWait=" + fw, "timeout=" + to, "orgId=" + o, "errBackoffMin=" + e, "errBackoffFactor=1.8"}
		if mode == 2 {
			for i, j := 0, len(optv)-1; i < j; i, j = i+1, j-1 {
				optv[i], optv[j] = optv[j], optv[i]
			}
		}
		cmd += " " + strings.Join(optv, " ")
		w.Spool, w.SSLVerify, w.Blocking = true, false, true
		w.Concurrency, w.BufSize, w.FlushMaxNum, w.OrgID = rc.Concurrency, rc.BufSize, rc.FlushMaxNum, rc.OrgId
		w.FlushMaxWait = time.Duration(rc.FlushMaxWait) * time.Millisecond
		w.Timeout = time.Duration(rc.Timeout) * time.Millisecond
		w.ErrBackoffMin = time.Duration(rc.ErrBackoffMin) * time.Millisecond
		w.ErrBackoffFactor = 1.8
	}
	meta := toml.MetaData{Mapping: map[string]interface{}{"route": []map[string]interface{}{section}}}
	t1, t2 := &verifC20Table{}, &verifC20Table{}
	e1 := InitRoutes(t1, Config{Route: []Route{rc}}, meta)
	e2 := imperatives.Apply(t2, cmd)
	verifAssert(e1 == nil && e2 == nil, "grafananet-equiv/accepted")
	if e1 != nil || e2 != nil {
		return
	}
	verifAssert(len(t1.Routes) == 1 && len(t2.Routes) == 1, "grafananet-equiv/count")
	r1, ok1 := t1.Routes[0].(*route.GrafanaNet)
	r2, ok2 := t2.Routes[0].(*route.GrafanaNet)
	verifAssert(ok1 && ok2, "grafananet-equiv/type")
	if !ok1 || !ok2 {
		return
	}
	verifAssert(r1.Key() == "gn" && r2.Key() == "gn", "grafananet-equiv/key")
	c20MatcherEqual("grafananet-equiv/matcher", r1.Snapshot().Matcher, r2.Snapshot().Matcher)
	c20MatcherCompare("grafananet-equiv/command-vs-spec/matcher", r2.Snapshot().Matcher, "", "", "sub", "", "", "")
	c20GrafanaNetCompare("grafananet-equiv/section-vs-command", r1.Cfg, r2.Cfg)
	c20GrafanaNetCompare("grafananet-equiv/command-vs-spec", r2.Cfg, w)
	verifCover("end")
}

// VerifC20InitCmds: `init = [...]` runs the same commands through imperatives.Apply, in order; a failing
// command is an error.
func VerifC20InitCmds() {
	tab := &verifC20Table{}
	var c Config
	c.Init.Cmds = []string{"addBlack prefix collectd.localhost", `addBlack regex ^foo\..*\.cpu+`, "addRewriter testold testnew -1"}
	err := InitCmd(tab, c)
	verifAssert(err == nil, "initcmd/accepted")
	verifAssert(len(tab.Blacklist) == 2 && len(tab.Rewriters) == 1, "initcmd/all-applied")
	if len(tab.Blacklist) == 2 {
		c20MatcherCompare("initcmd/first", *tab.Blacklist[0], "collectd.localhost", "", "", "", "", "")
		c20MatcherCompare("initcmd/second", *tab.Blacklist[1], "", "", "", "", `^foo\..*\.cpu+`, "")
	}
	c.Init.Cmds = []string{"addBlack prefix a", "noSuchCommand x"}
	verifAssert(InitCmd(&verifC20Table{}, c) != nil, "initcmd/bad-command-rejected")
	verifCover("end")
}

// verifPosDigits: n symbolic digits denoting a value >= 1 (settings that cannot work with 0 -- flush,
// reconnect and sync periods, iobuf, aggregation interval -- are refused by the constructors, see C14)
func verifPosDigits(name string, n int) string {
	d := verifDigits(name, n)
	zero := true
	for i := 0; i < len(d); i++ {
		if d[i] != '0' {
			zero = false
		}
	}
	verifAssume(!zero)
	return d
}
