//go:build verif

package badmetrics

import (
	"errors"
	"time"
)

// VerifC02BadQueueFull: a rejected line is never lost on its way into the bad-metrics report, even when the
// hand-over queue is full at that moment (one-step from an arbitrary queue state: the queue is built with a
// small capacity and filled by the harness; Add must wait for room, not drop the record).
func VerifC02BadQueueFull() {
	capQ := 1 + verifChoice("queuecap", 2)
	b := &BadMetrics{
		maxAge:  time.Hour,
		seen:    make(map[string]Record),
		In:      make(chan Record, capQ),
		getReq:  make(chan time.Time),
		getResp: make(chan []Record),
	}
	// fill the queue while nobody drains it, then one more rejection arrives
	names := []string{"n0", "n1", "n2"}
	for i := 0; i < capQ; i++ {
		b.Add([]byte(names[i]), []byte(names[i]+" x y"), errors.New("bad"))
	}
	done := make(chan bool, 1)
	go func() {
		b.Add([]byte(names[capQ]), []byte(names[capQ]+" x y"), errors.New("bad"))
		done <- true
	}()
	verifSettle()
	// now the report goroutine starts draining
	go b.manage()
	verifSettle()
	if !verifIsSymbolic() {
		time.Sleep(100 * time.Millisecond)
	}
	recs := b.Get(time.Hour)
	verifAssert(len(recs) == capQ+1, "every-rejection-visible-even-when-queue-was-full")
	verifCover("end")
}
