//go:build verif

package persister

import (
	"os"
	"strconv"
)

// C16 (storage-schemas order): ReadWhisperSchemas returns the rules ordered by priority descending, then
// by position in the file, each rule keeping its own pattern and retentions; old ("60:1440") and new
// ("10s:1d") retention syntax give the documented seconds-per-point. The file goes through the engine's
// in-memory file system (natively: a real temporary file).

type verifC16Section struct {
	pattern, retentions string
	seconds             int // seconds per point of the first retention
}

var verifC16Sections = []verifC16Section{
	{"^a\\.;env=prod(;|$)", "60:1440", 60}, // a rule selecting by tag value: the value of the ini line contains '='
	{"b$", "10s:1d,1m:30d", 10},
	{"^c", "5m:1y", 300},
	{".*", "1h:7d", 3600},
}

func VerifC16SchemaOrder() {
	n := 2
	if p := verifParam("sections"); p != "" {
		n, _ = strconv.Atoi(p)
	}
	var text []byte
	prio := make([]int64, n)
	for i := 0; i < n; i++ {
		sec := verifC16Sections[i]
		text = append(text, "[s"+strconv.Itoa(i)+"]\npattern = "+sec.pattern+"\n"...)
		// priority line: absent, one digit or two digits (free)
		nd := verifChoice("priodigits", 3)
		if nd > 0 {
			text = append(text, "priority = "...)
			var v int64
			for k := 0; k < nd; k++ {
				d := verifByte("prio")
				verifAssume(verifAnd(d >= '0', d <= '9'))
				text = append(text, d)
				v = v*10 + int64(d-'0')
			}
			text = append(text, '\n')
			prio[i] = v
		}
		text = append(text, "retentions = "+sec.retentions+"\n\n"...)
	}
	path := verifTempDir() + "/storage-schemas.conf"
	f, err := os.Create(path)
	if err != nil {
		panic(err)
	}
	f.Write(text)
	f.Close()

	ws, err := ReadWhisperSchemas(path)
	verifAssert(err == nil, "well-formed-file-is-read")
	verifAssert(len(ws) == n, "one-rule-per-section")
	if err != nil || len(ws) != n {
		return
	}
	idx := make([]int, n)
	seen := make([]bool, n)
	for k, s := range ws {
		i := -1
		for j := 0; j < n; j++ {
			if s.Name == "s"+strconv.Itoa(j) {
				i = j
			}
		}
		verifAssert(i >= 0 && !seen[i], "rules-are-a-permutation-of-the-sections")
		if i < 0 || seen[i] {
			return
		}
		seen[i] = true
		idx[k] = i
		verifAssert(s.Pattern.String() == verifC16Sections[i].pattern, "rule-keeps-its-pattern")
		verifAssert(len(s.Retentions) > 0 && s.Retentions[0].SecondsPerPoint() == verifC16Sections[i].seconds, "first-retention-seconds-per-point-old-and-new-syntax")
		verifAssert(s.RetentionStr == verifC16Sections[i].retentions, "rule-keeps-its-retention-text")
	}
	for k := 0; k+1 < n; k++ {
		a, b := idx[k], idx[k+1]
		verifAssert(verifOr(prio[a] > prio[b], verifAnd(prio[a] == prio[b], a < b)), "ordered-by-priority-descending-then-file-order")
	}
	verifCover("end")
}
