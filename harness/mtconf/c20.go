//go:build verif

package conf

// Model used by the C20 harness (verifStubFunc): the storage-aggregation.conf file exists and is valid.
// File parsing is outside C20.
func VerifC20ReadAggregationsModel(file string) (Aggregations, error) {
	return NewAggregations(), nil
}
