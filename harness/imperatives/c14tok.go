//go:build verif

package imperatives

import (
	"strings"

	"github.com/taylorchu/toki"
)

// C14 (admin port), token level. The parser behind imperatives.Apply is explored over token SEQUENCES: the first
// token is one of the command tokens (concrete choice), every further token is, by class: an arbitrary
// keyword / option / separator / function token (kind = free variable over all such kinds), a number (free
// digits), or a word / quoted string from a family of corner spellings. In the engine the lexer's Next / Peek
// hand out these tokens (verifTokenStream); natively the same tokens are rendered as command text and the real
// lexer produces them again. Whatever the sequence: Apply returns (an error or nil), never panics; what it
// installed can be applied to any metric name.

var verifC14Words = []string{"/", "//", "a.b", "^a", "(", "1.5", "x=y", "*", "127.0.0.1:2003", "-1", "/tmp/x", "a,b"}

func verifC14IsLiteral(k toki.Token) bool {
	return k != num && k != word && k != str
}

func VerifC14AdminTokens() {
	cmds := []toki.Token{addBlack, addAgg, addRouteSendAllMatch, addRouteSendFirstMatch, addRouteConsistentHashing, addRewriter, delRoute, modDest, modRoute, addDest}
	if p := verifParam("cmds"); p == "backends" {
		cmds = []toki.Token{addRouteGrafanaNet, addRouteKafkaMdm, addRoutePubSub}
	}
	n := 1 + verifChoice("ntokens", verifParamInt("maxtokens", 4))
	kinds := make([]uint32, n)
	vals := make([][]byte, n)
	strs := 0
	for i := 0; i < n; i++ {
		last := i == n-1
		if i == 0 {
			kinds[0] = uint32(cmds[verifChoice("cmd", len(cmds))])
			vals[0] = []byte("?")
			continue
		}
		switch verifChoice("class", 4) {
		case 0: // any literal token: keywords, options, separator, true / false, aggregation functions
			k := verifUint32("kind")
			verifAssume(k < uint32(len(tokens)))
			verifAssume(verifAnd(k != uint32(num), verifAnd(k != uint32(word), k != uint32(str))))
			kinds[i] = k
			vals[i] = []byte("??") // natively: the token's own text
		case 1: // number: 1..2 free digits (the lexer includes the following space in the value)
			d := verifString("digits", 1+verifChoice("ndigits", 2))
			for j := 0; j < len(d); j++ {
				verifAssume(verifAnd(d[j] >= '0', d[j] <= '9'))
			}
			kinds[i] = uint32(num)
			vals[i] = []byte(d)
			if !last {
				vals[i] = append(vals[i], ' ')
			}
		case 2: // word from the family
			kinds[i] = uint32(word)
			vals[i] = []byte(verifC14Words[verifChoice("word", len(verifC14Words))])
		case 3: // one quoted string at most (the lexer's pattern is greedy up to the last quote)
			verifAssume(strs == 0)
			strs++
			kinds[i] = uint32(str)
			vals[i] = []byte("\"a b\"")
		}
	}
	var cmd string
	if verifIsSymbolic() {
		verifTokenStream(kinds, vals)
		cmd = "<token stream>"
	} else {
		var parts []string
		for i := 0; i < n; i++ {
			if verifC14IsLiteral(toki.Token(kinds[i])) {
				text := ""
				for _, d := range tokens {
					if uint32(d.Token) == kinds[i] {
						text = d.Pattern
					}
				}
				parts = append(parts, strings.TrimSpace(text))
			} else {
				parts = append(parts, strings.TrimSpace(string(vals[i])))
			}
		}
		cmd = strings.Join(parts, " ")
	}
	tab := &verifC14Table{}
	err := Apply(tab, cmd)
	if err == nil {
		name := []byte(verifC14Name("name", 2))
		for _, rw := range tab.Rewriters {
			_ = rw.Do(name)
		}
		for _, m := range tab.Blacklist {
			_ = m.Match(name)
		}
		for _, r := range tab.Routes {
			_ = r.Match(name)
		}
	}
	verifAssert(err != nil || len(tab.Rewriters)+len(tab.Blacklist)+len(tab.Routes)+len(tab.Aggregators) <= 1, "at-most-one-entry-installed-per-command")
	verifCover("end")
}
