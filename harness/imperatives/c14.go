//go:build verif

package imperatives

import "errors"

// C14 (admin port): commands with arbitrary short words in their argument slots. Whatever the words are, the
// command is either carried out or refused with an error; and what it installed (rewriter, blacklist entry)
// can afterwards be applied to any metric name. A panic anywhere is a violation (an admin connection's
// goroutine has no recover: it would take the relay down).

type verifC14Table struct{ verifC20Table }

var verifErrNoSuch = errors.New("verif: no such route")

func (t *verifC14Table) DelRoute(key string) error { return verifErrNoSuch }
func (t *verifC14Table) UpdateDestination(key string, index int, opts map[string]string) error {
	return verifErrNoSuch
}
func (t *verifC14Table) UpdateRoute(key string, opts map[string]string) error { return verifErrNoSuch }

// verifC14Word: a word for an argument slot. The toki lexer runs regexp.Find over the command, which the engine
// supports on concrete text only, so the slot ranges over a family of corner spellings (solver-chosen index)
// instead of free bytes; free bytes reach the constructors directly in harness/rewriter/c14.go.
func verifC14Word(tag string, max int) string {
	words := []string{"/", "//", "a", "/a", "a/", "=", "##", "-1", "\\", "a=b", "'", "\"", "(", "[a", "///", "/(/", "/*/"}
	return words[verifChoice(tag, len(words))]
}

func verifC14Name(tag string, n int) string {
	w := verifString(tag, n)
	for i := 0; i < n; i++ {
		verifAssume(verifAnd(w[i] > 0x20, w[i] < 0x7f))
	}
	return w
}

func VerifC14AdminWords() {
	nums := []string{"-2", "-1", "0", "1", "x", "99999999999999999999"}
	var cmd string
	switch verifParam("cmd") {
	case "addRewriter":
		cmd = "addRewriter " + verifC14Word("old", 2) + " " + verifC14Word("new", 1) + " " + nums[verifChoice("max", len(nums))]
	case "addBlack":
		methods := []string{"prefix", "sub", "notPrefix", "x"}
		cmd = "addBlack " + methods[verifChoice("method", len(methods))] + " " + verifC14Word("w", 2)
	case "addBlackRegex":
		pats := []string{"(", "[", "*", "a{2,1}", "^a", "\\"}
		cmd = "addBlack regex " + pats[verifChoice("pat", len(pats))]
	case "delRoute":
		cmd = "delRoute " + verifC14Word("key", 2)
	case "modDest":
		cmd = "modDest " + verifC14Word("key", 1) + " " + nums[verifChoice("idx", len(nums))] + " prefix=" + verifC14Word("p", 1)
	case "modRoute":
		cmd = "modRoute " + verifC14Word("key", 1) + " sub=" + verifC14Word("s", 1)
	default:
		panic("unknown cmd param")
	}
	tab := &verifC14Table{}
	err := Apply(tab, cmd)
	name := []byte(verifC14Name("name", 2))
	if err == nil {
		for _, rw := range tab.Rewriters {
			_ = rw.Do(name)
		}
		for _, m := range tab.Blacklist {
			_ = m.Match(name)
		}
	}
	verifAssert(err != nil || len(tab.Rewriters)+len(tab.Blacklist) <= 1, "at-most-one-entry-installed-per-command")
	verifCover("end")
}
