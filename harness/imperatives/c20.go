//go:build verif

package imperatives

// C20 (destination options): every documented option of a carbon destination (docs/config.md "carbon
// destination", docs/tcp-admin-interface.md addRoute <dest> <opts>) ends up in the field it names, in the
// documented unit; an absent option leaves the documented default; the last occurrence wins; the options
// of one destination never reach another one. Both entry points are driven: ParseDestinations (TOML
// `destinations = [...]`) and Apply("addRoute ...") (init commands / admin interface).
//
// Command strings are concrete except for the digits of numeric values (verifDigits): the real toki lexer,
// the real strconv.Atoi and the real unit arithmetic run on them.

import (
	"strings"

	"github.com/grafana/carbon-relay-ng/destination"
	"github.com/grafana/carbon-relay-ng/route"
	"github.com/grafana/carbon-relay-ng/table"
)

// native twin of the engine's verifDigits: n digit bytes
func verifDigits(name string, n int) string {
	b := verifBytes(name, n)
	for _, c := range b {
		verifAssume('0' <= c && c <= '9')
	}
	return string(b)
}

func verifC20Num(d string) int {
	v := 0
	for i := 0; i < len(d); i++ {
		v = v*10 + int(d[i]-'0')
	}
	return v
}

const verifC20SpoolDir = "/tmp/verif-c20-spool"

// verifC20Table records what is added (table.MockTable) with a spool dir of our own.
type verifC20Table struct{ table.MockTable }

func (t *verifC20Table) GetSpoolDir() string { return verifC20SpoolDir }

// ---- the option list; defaults and meanings: harness/destination/c20.go (VerifC20DestDefaults/Set) ------

const (
	c20Str = iota
	c20Int
	c20Bool
)

type c20OptDef struct {
	name string
	kind int
}

var c20DestOpts = []c20OptDef{
	{"prefix", c20Str}, {"notPrefix", c20Str}, {"sub", c20Str}, {"notSub", c20Str}, {"regex", c20Str}, {"notRegex", c20Str},
	{"flush", c20Int}, {"reconn", c20Int}, {"pickle", c20Bool}, {"spool", c20Bool},
	{"connbuf", c20Int}, {"iobuf", c20Int}, {"spoolbuf", c20Int}, {"spoolmaxbytesperfile", c20Int},
	{"spoolsyncevery", c20Int}, {"spoolsyncperiod", c20Int}, {"spoolsleep", c20Int}, {"unspoolsleep", c20Int},
}

func c20DestDefaults(routeKey, addr string) destination.VerifDestFieldsT {
	return destination.VerifC20DestDefaults(routeKey, addr, verifC20SpoolDir)
}

func c20DestSet(w *destination.VerifDestFieldsT, opt string, s string, n int, b bool) {
	destination.VerifC20DestSet(w, opt, s, n, b)
}

func c20DestCompare(tag string, g, w destination.VerifDestFieldsT) {
	verifAssert(g.Prefix == w.Prefix, tag+"/prefix")
	verifAssert(g.NotPrefix == w.NotPrefix, tag+"/notPrefix")
	verifAssert(g.Sub == w.Sub, tag+"/sub")
	verifAssert(g.NotSub == w.NotSub, tag+"/notSub")
	verifAssert(g.Regex == w.Regex, tag+"/regex")
	verifAssert(g.NotRegex == w.NotRegex, tag+"/notRegex")
	verifAssert(g.Addr == w.Addr, tag+"/addr")
	verifAssert(g.Instance == w.Instance, tag+"/instance")
	verifAssert(g.SpoolDir == w.SpoolDir, tag+"/spoolDir")
	verifAssert(g.Key == w.Key, tag+"/key")
	verifAssert(g.RouteName == w.RouteName, tag+"/routeName")
	verifAssert(g.Spool == w.Spool, tag+"/spool")
	verifAssert(g.Pickle == w.Pickle, tag+"/pickle")
	verifAssert(g.PeriodFlush == w.PeriodFlush, tag+"/flush")
	verifAssert(g.PeriodReConn == w.PeriodReConn, tag+"/reconn")
	verifAssert(g.ConnBufSize == w.ConnBufSize, tag+"/connbuf")
	verifAssert(g.IoBufSize == w.IoBufSize, tag+"/iobuf")
	verifAssert(g.SpoolBufSize == w.SpoolBufSize, tag+"/spoolbuf")
	verifAssert(g.SpoolMaxBytesPerFile == w.SpoolMaxBytesPerFile, tag+"/spoolmaxbytesperfile")
	verifAssert(g.SpoolSyncEvery == w.SpoolSyncEvery, tag+"/spoolsyncevery")
	verifAssert(g.SpoolSyncPeriod == w.SpoolSyncPeriod, tag+"/spoolsyncperiod")
	verifAssert(g.SpoolSleep == w.SpoolSleep, tag+"/spoolsleep")
	verifAssert(g.UnspoolSleep == w.UnspoolSleep, tag+"/unspoolsleep")
}

// string values, distinct per occurrence so that "last occurrence wins" is observable; all are valid
// regular expressions and lex as one `word` token
var c20Words = []string{"aa.", "b_b", "^cc", "dd$", "e-e", "ff"}

// c20Lens parses the "vlens" parameter ("1,3"): the digit counts numeric values range over.
func c20Lens() []int {
	p := verifParam("vlens")
	if p == "" {
		p = "1,3"
	}
	var r []int
	for _, f := range strings.Split(p, ",") {
		r = append(r, verifC20Num(f))
	}
	return r
}

// c20GenOpts appends n solver-chosen option occurrences to the destination text and applies their
// documented meaning to w. which < 0: any option; otherwise that option index.
func c20GenOpts(tag string, n int, w *destination.VerifDestFieldsT, wordBase int, noSpoolTrue bool) string {
	text := ""
	lens := c20Lens()
	for i := 0; i < n; i++ {
		o := c20DestOpts[verifChoice(tag+".opt", len(c20DestOpts))]
		switch o.kind {
		case c20Str:
			s := c20Words[(wordBase+i)%len(c20Words)]
			text += " " + o.name + "=" + s
			c20DestSet(w, o.name, s, 0, false)
		case c20Int:
			d := verifPosDigits(tag+".val", lens[verifChoice(tag+".vlen", len(lens))])
			text += " " + o.name + "=" + d
			c20DestSet(w, o.name, "", verifC20Num(d), false)
		case c20Bool:
			b := verifChoice(tag+".bool", 2) == 1
			if noSpoolTrue && o.name == "spool" {
				verifAssume(!b)
			}
			if b {
				text += " " + o.name + "=true"
			} else {
				text += " " + o.name + "=false"
			}
			c20DestSet(w, o.name, "", 0, b)
		}
	}
	return text
}

// VerifC20DestOptions: one destination with 0..maxopts option occurrences in any order (repeats allowed),
// through ParseDestinations (the TOML `destinations` entry point; nothing is started).
func VerifC20DestOptions() {
	maxopts := len(verifParam("maxopts"))
	addr := "graphite.prod:2003"
	w := c20DestDefaults("rk", addr)
	text := addr + c20GenOpts("d0", verifChoice("nopts", maxopts+1), &w, 0, false)
	tab := &verifC20Table{}
	dests, err := ParseDestinations([]string{text}, tab, true, "rk")
	verifAssert(err == nil, "dest/accepted")
	if err != nil {
		return
	}
	verifAssert(len(dests) == 1, "dest/count")
	c20DestCompare("dest/field", destination.VerifDestFields(dests[0]), w)
	verifCover("end")
}

// VerifC20DestAll: all 18 options at once with pairwise different values, in a solver-chosen rotation
// (a swapped pair of assignments anywhere shows), followed by one repeated option (last one wins).
// Parameter full=1: booleans and the repeated option are free choices too (18*4*30 paths); otherwise they
// are a fixed function of the rotation (18 paths).
func VerifC20DestAll() {
	full := verifParam("full") == "1"
	addr := "10.0.0.1:2003:inst7"
	w := c20DestDefaults("rk", addr)
	rot := verifChoice("rotation", len(c20DestOpts))
	text := addr
	nums := 0
	for i := range c20DestOpts {
		o := c20DestOpts[(i+rot)%len(c20DestOpts)]
		switch o.kind {
		case c20Str:
			s := c20Words[i%len(c20Words)] + o.name
			text += " " + o.name + "=" + s
			c20DestSet(&w, o.name, s, 0, false)
		case c20Int:
			d := verifPosDigits("val", 1+nums%3)
			nums++
			text += " " + o.name + "=" + d
			c20DestSet(&w, o.name, "", verifC20Num(d), false)
		case c20Bool:
			b := (rot+i)%3 != 0
			if full {
				b = verifChoice("bool", 2) == 1
			}
			if b {
				text += " " + o.name + "=true"
			} else {
				text += " " + o.name + "=false"
			}
			c20DestSet(&w, o.name, "", 0, b)
		}
	}
	if full {
		text += c20GenOpts("again", 1, &w, 3, false)
	} else {
		o := c20DestOpts[(rot*5+3)%len(c20DestOpts)]
		switch o.kind {
		case c20Str:
			text += " " + o.name + "=again"
			c20DestSet(&w, o.name, "again", 0, false)
		case c20Int:
			d := verifPosDigits("again.val", 2)
			text += " " + o.name + "=" + d
			c20DestSet(&w, o.name, "", verifC20Num(d), false)
		case c20Bool:
			text += " " + o.name + "=false"
			c20DestSet(&w, o.name, "", 0, false)
		}
	}
	tab := &verifC20Table{}
	dests, err := ParseDestinations([]string{text}, tab, true, "rk")
	verifAssert(err == nil, "destall/accepted")
	if err != nil {
		return
	}
	verifAssert(len(dests) == 1, "destall/count")
	c20DestCompare("destall/field", destination.VerifDestFields(dests[0]), w)
	verifCover("end")
}

// VerifC20DestNoMatcher: consistent-hashing destinations (allowMatcher=false) reject the six matcher
// options and take every other option as documented.
func VerifC20DestNoMatcher() {
	addr := "h1:2003:a"
	w := c20DestDefaults("ch", addr)
	text := addr + c20GenOpts("d0", 1, &w, 0, false)
	tab := &verifC20Table{}
	dests, err := ParseDestinations([]string{text}, tab, false, "ch")
	if w.Prefix+w.NotPrefix+w.Sub+w.NotSub+w.Regex+w.NotRegex != "" {
		verifAssert(err != nil, "destch/matcher-option-rejected")
		return
	}
	verifAssert(err == nil, "destch/accepted")
	if err != nil {
		return
	}
	c20DestCompare("destch/field", destination.VerifDestFields(dests[0]), w)
	verifCover("end")
}

// VerifC20AddRoute: the command syntax. `addRoute <type> <key> [route opts]  <dest> [opts]  <dest> [opts]`
// with two destinations, each with 0..1 solver-chosen options: the route gets its own options, each
// destination exactly its own, defaults elsewhere (no leaking between destinations or from the route).
func VerifC20AddRoute() {
	types := []string{"sendAllMatch", "sendFirstMatch"}
	routeOpts := []string{"", " prefix=rp.", " sub=rs notRegex=rn$", " regex=^rr notPrefix=np notSub=ns"}
	var ro int
	var typ string
	if verifParam("full") == "1" {
		ro = verifChoice("routeopts", len(routeOpts))
		typ = types[verifChoice("type", len(types))]
	} else {
		ro = 3 * verifChoice("routeopts", 2)
		typ = types[ro%2]
	}
	a0, a1 := "graphite.prod:2003", "graphite.staging:2004"
	w0, w1 := c20DestDefaults("rk", a0), c20DestDefaults("rk", a1)
	t0 := a0 + c20GenOpts("d0", verifChoice("n0", 2), &w0, 0, false)
	t1 := a1 + c20GenOpts("d1", verifChoice("n1", 2), &w1, 3, false)
	cmd := "addRoute " + typ + " rk" + routeOpts[ro] + "  " + t0 + "  " + t1
	tab := &verifC20Table{}
	err := Apply(tab, cmd)
	verifAssert(err == nil, "addroute/accepted")
	if err != nil {
		return
	}
	verifAssert(len(tab.Routes) == 1, "addroute/one-route")
	r := tab.Routes[0]
	verifAssert(r.Key() == "rk", "addroute/key")
	snap := r.Snapshot()
	verifAssert(snap.Type == typ, "addroute/type")
	m := snap.Matcher
	wantM := [][6]string{{}, {"rp."}, {"", "", "rs", "", "", "rn$"}, {"", "np", "", "ns", "^rr", ""}}[ro]
	verifAssert(m.Prefix == wantM[0], "addroute/route-prefix")
	verifAssert(m.NotPrefix == wantM[1], "addroute/route-notPrefix")
	verifAssert(m.Sub == wantM[2], "addroute/route-sub")
	verifAssert(m.NotSub == wantM[3], "addroute/route-notSub")
	verifAssert(m.Regex == wantM[4], "addroute/route-regex")
	verifAssert(m.NotRegex == wantM[5], "addroute/route-notRegex")
	d0, e0 := r.GetDestination(0)
	d1, e1 := r.GetDestination(1)
	_, e2 := r.GetDestination(2)
	verifAssert(e0 == nil && e1 == nil && e2 != nil, "addroute/two-destinations")
	if e0 != nil || e1 != nil {
		return
	}
	c20DestCompare("addroute/dest0", destination.VerifDestFields(d0), w0)
	c20DestCompare("addroute/dest1", destination.VerifDestFields(d1), w1)
	verifCover("end")
}

// VerifC20DocExamples: the documented example commands / destination strings, concretely.
func VerifC20DocExamples() {
	tab := &verifC20Table{}
	switch verifChoice("example", 4) {
	case 0: // docs/config.md: destinations = ['127.0.0.1:2003 spool=true pickle=false']
		dests, err := ParseDestinations([]string{"127.0.0.1:2003 spool=true pickle=false"}, tab, true, "carbon-default")
		verifAssert(err == nil && len(dests) == 1, "example/config-carbon-default/accepted")
		if err != nil || len(dests) != 1 {
			return
		}
		w := c20DestDefaults("carbon-default", "127.0.0.1:2003")
		w.Spool = true
		c20DestCompare("example/config-carbon-default", destination.VerifDestFields(dests[0]), w)
	case 1: // docs/config.md: the analytics route
		dests, err := ParseDestinations([]string{"graphite.prod:2003 prefix=prod. spool=true pickle=true", "graphite.staging:2003 prefix=staging. spool=true pickle=true"}, tab, true, "analytics")
		verifAssert(err == nil && len(dests) == 2, "example/config-analytics/accepted")
		if err != nil || len(dests) != 2 {
			return
		}
		w := c20DestDefaults("analytics", "graphite.prod:2003")
		w.Prefix, w.Spool, w.Pickle = "prod.", true, true
		c20DestCompare("example/config-analytics/dest0", destination.VerifDestFields(dests[0]), w)
		w = c20DestDefaults("analytics", "graphite.staging:2003")
		w.Prefix, w.Spool, w.Pickle = "staging.", true, true
		c20DestCompare("example/config-analytics/dest1", destination.VerifDestFields(dests[1]), w)
	case 2: // docs/tcp-admin-interface.md: carbon-tagger
		err := Apply(tab, "addRoute sendAllMatch carbon-tagger sub==  127.0.0.1:2006")
		verifAssert(err == nil && len(tab.Routes) == 1, "example/cmd-carbon-tagger/accepted")
		if err != nil || len(tab.Routes) != 1 {
			return
		}
		verifAssert(tab.Routes[0].Snapshot().Matcher.Sub == "=", "example/cmd-carbon-tagger/route-sub")
		d, e := tab.Routes[0].GetDestination(0)
		verifAssert(e == nil, "example/cmd-carbon-tagger/dest")
		if e != nil {
			return
		}
		c20DestCompare("example/cmd-carbon-tagger/dest0", destination.VerifDestFields(d), c20DestDefaults("carbon-tagger", "127.0.0.1:2006"))
	case 3: // docs/tcp-admin-interface.md: analytics (spooling destinations are started by the route)
		err := Apply(tab, "addRoute sendFirstMatch analytics regex=(Err/s|wait_time|logger)  graphite.prod:2003 prefix=prod. spool=true pickle=true  graphite.staging:2003 prefix=staging. spool=true pickle=true")
		verifAssert(err == nil && len(tab.Routes) == 1, "example/cmd-analytics/accepted")
		if err != nil || len(tab.Routes) != 1 {
			return
		}
		snap := tab.Routes[0].Snapshot()
		verifAssert(snap.Type == "sendFirstMatch" && snap.Matcher.Regex == "(Err/s|wait_time|logger)", "example/cmd-analytics/route")
		d0, e0 := tab.Routes[0].GetDestination(0)
		d1, e1 := tab.Routes[0].GetDestination(1)
		verifAssert(e0 == nil && e1 == nil, "example/cmd-analytics/dests")
		if e0 != nil || e1 != nil {
			return
		}
		w := c20DestDefaults("analytics", "graphite.prod:2003")
		w.Prefix, w.Spool, w.Pickle = "prod.", true, true
		c20DestCompare("example/cmd-analytics/dest0", destination.VerifDestFields(d0), w)
		w = c20DestDefaults("analytics", "graphite.staging:2003")
		w.Prefix, w.Spool, w.Pickle = "staging.", true, true
		c20DestCompare("example/cmd-analytics/dest1", destination.VerifDestFields(d1), w)
	}
	verifCover("end")
}

var _ route.Route

// verifPosDigits: n symbolic digits denoting a value >= 1 (settings that cannot work with 0 -- flush,
// reconnect and sync periods, iobuf, aggregation interval -- are refused by the constructors, see C14)
func verifPosDigits(name string, n int) string {
	d := verifDigits(name, n)
	zero := true
	for i := 0; i < len(d); i++ {
		if d[i] != '0' {
			zero = false
		}
	}
	verifAssume(!zero)
	return d
}
