//go:build verif

package nsqd

import "time"

func verifIsMutation(label string) bool {
	switch label {
	case "segment-open", "segment-write", "meta-tmp-open", "meta-tmp-write", "meta-rename", "segment-remove", "bad-file-rename", "skip-remove":
		return true
	}
	return false
}

// VerifC08Crash: the process dies right after any filesystem mutation of any history of puts and gets
// (symbolic message contents, symbolic maxBytesPerFile and syncEvery); a new queue opened on what is on
// disk must not crash or hang and must deliver one contiguous run E[i:j] of the enqueued messages,
// byte for byte, with hs <= i <= hc (nothing undelivered skipped; only messages consumed since the last
// completed sync redelivered) and j >= ws (everything written before the last completed sync).
func VerifC08Crash() {
	dir := verifTempDir()
	maxBytes, syncEvery := verifParams()
	var E [][]byte  // payloads of all puts started, in order
	hc := 0         // messages handed to the consumer
	written := 0    // segment writes completed
	moved := 0      // read positions advanced (moveForward)
	ws, hs := 0, 0  // the same two, as of the last completed metadata rename
	crashed := false
	snap := ""
	hcAtCrash, wsAtCrash, hsAtCrash := 0, 0, 0
	VerifCrashPoint = func(label string) {
		verifFsHooked()
		switch label {
		case "segment-write":
			written++
		case "move-forward":
			moved++
		case "meta-rename":
			ws, hs = written, moved
		}
		if !crashed && verifIsMutation(label) && verifCrashHere(label) {
			crashed = true
			snap = verifSnapshotDir(dir)
			hcAtCrash, wsAtCrash, hsAtCrash = hc, ws, hs
			verifFreezeOthers()
		}
	}
	q := NewDiskQueue("q", dir, maxBytes, syncEvery, time.Hour).(*DiskQueue)
	K := verifNumOps()
	done := make(chan bool, 1)
	go func() {
		for i := 0; i < K; i++ {
			if verifChoice("op", 2) == 0 {
				m := verifMsg("m")
				E = append(E, append([]byte{}, m...))
				q.Put(m)
			} else {
				if _, ok := verifRecv(q.ReadChan()); ok {
					hc++
				}
			}
		}
		// let the I/O loop finish what the last operation triggered (it may crash there)
		verifSettle()
		done <- true
	}()
	if verifIsSymbolic() {
		verifSettle()
	} else {
		select {
		case <-done:
		case <-time.After(5 * time.Second):
		}
	}
	// the relay is dead now (a crash after the whole history if none happened before)
	if !crashed {
		crashed = true
		snap = verifSnapshotDir(dir)
		hcAtCrash, wsAtCrash, hsAtCrash = hc, ws, hs
		verifFreezeOthers()
	}
	VerifCrashPoint = func(string) { verifFsHooked() }

	// recovery must terminate: a queue spinning in its I/O loop is a hang
	verifStepLimit(300000)
	q2 := NewDiskQueue("q", snap, maxBytes, syncEvery, time.Hour).(*DiskQueue)
	var D [][]byte
	for len(D) <= len(E)+1 {
		m, ok := verifRecv(q2.ReadChan())
		if !ok {
			break
		}
		D = append(D, m)
	}
	verifAssert(len(D) <= len(E), "recovered-no-more-than-enqueued")
	ok := false
	for i := hsAtCrash; i <= hcAtCrash; i++ {
		j := i + len(D)
		if j < wsAtCrash || j > len(E) {
			continue
		}
		ok = verifOr(ok, verifFlat(D) == verifFlat(E[i:j]))
	}
	verifAssert(ok, "recovered-run-is-contiguous-intact-and-within-bounds")
	// the recovered queue is usable: one more message goes in and comes out, and it closes
	extra := []byte{0x7e}
	perr := q2.Put(extra)
	verifAssert(perr == nil, "recovered-queue-accepts-put")
	m2, ok2 := verifRecv(q2.ReadChan())
	verifAssert(ok2 && string(m2) == string(extra), "recovered-queue-delivers-new-message")
	verifAssert(q2.Close() == nil, "recovered-queue-closes")
	verifCover("end")
}
