//go:build verif

package nsqd

import "time"

func verifMsg(tag string) []byte {
	n := verifChoice(tag+".len", 3)
	return verifBytes(tag, n)
}

// verifRecv: one message from ch if the queue offers one "now".
func verifRecv(ch chan []byte) ([]byte, bool) {
	if verifIsSymbolic() {
		verifSettle()
		select {
		case m := <-ch:
			return m, true
		default:
			return nil, false
		}
	}
	select {
	case m := <-ch:
		return m, true
	case <-time.After(300 * time.Millisecond):
		return nil, false
	}
}

// verifFlat: unambiguous flattening of a message list (1-byte length prefix per message).
func verifFlat(ms [][]byte) string {
	var b []byte
	for _, m := range ms {
		b = append(b, byte(len(m)))
		b = append(b, m...)
	}
	return string(b)
}

func verifParams() (int64, int64) {
	maxBytes := int64(verifInt("maxBytesPerFile", 1, 40))
	syncEvery := int64(verifInt("syncEvery", 1, 100))
	return maxBytes, syncEvery
}

func verifNumOps() int { return len(verifParam("ops")) }
