//go:build verif

package nsqd

import "time"

// VerifC09Fifo: any history over {put(m), get, close+reopen} against a model FIFO, for symbolic
// message contents (0..2 bytes), symbolic maxBytesPerFile >= 1 and syncEvery >= 1.
func VerifC09Fifo() {
	dir := verifTempDir()
	VerifCrashPoint = func(string) { verifFsHooked() }
	maxBytes, syncEvery := verifParams()
	q := NewDiskQueue("q", dir, maxBytes, syncEvery, time.Hour).(*DiskQueue)
	var model [][]byte
	// a fixed prefix of operations (param "prefix": p = put, g = get, r = close+reopen) followed by K free ones
	prefix := verifParam("prefix")
	K := verifNumOps()
	for i := 0; i < len(prefix)+K; i++ {
		op := 0
		if i < len(prefix) {
			switch prefix[i] {
			case 'g':
				op = 1
			case 'r':
				op = 2
			}
		} else {
			op = verifChoice("op", 3)
		}
		switch op {
		case 0:
			m := verifMsg("m")
			err := q.Put(m)
			verifAssert(err == nil, "put-ok")
			model = append(model, append([]byte{}, m...))
		case 1:
			got, ok := verifRecv(q.ReadChan())
			if ok {
				verifAssert(len(model) > 0, "no-phantom-message")
				if len(model) > 0 {
					verifAssert(string(got) == string(model[0]), "fifo-head-byte-for-byte")
					model = model[1:]
				}
			} else {
				verifAssert(len(model) == 0, "message-available-when-enqueued")
			}
		case 2:
			err := q.Close()
			verifAssert(err == nil, "close-ok")
			q = NewDiskQueue("q", dir, maxBytes, syncEvery, time.Hour).(*DiskQueue)
		}
	}
	verifSettle()
	verifAssert(q.Depth() == int64(len(model)), "depth-equals-undelivered")
	// drain: exactly the remaining model, in order, then nothing
	var rest [][]byte
	for len(rest) <= len(model) {
		m, ok := verifRecv(q.ReadChan())
		if !ok {
			break
		}
		rest = append(rest, m)
	}
	verifAssert(len(rest) == len(model), "drain-count")
	if len(rest) == len(model) {
		verifAssert(verifFlat(rest) == verifFlat(model), "drain-content-in-order")
	}
	verifSettle()
	verifAssert(q.Depth() == 0, "depth-zero-after-drain")
	verifCover("end")
}

// VerifC09ReadBuffer: concrete-length boundary run around the reader's 4096-byte buffer. One long message puts
// the length prefix of the next record 3, 2, 1 or 0 bytes before the point where the buffered reader has to
// refill (offsets 4093..4096 of the segment), two short messages follow, the queue is optionally closed and
// reopened, and everything is read back: byte-for-byte, in order, depth right. (Histories with short messages
// never get a backlog beyond one reader buffer.)
func VerifC09ReadBuffer() {
	dir := verifTempDir()
	VerifCrashPoint = func(string) { verifFsHooked() }
	q := NewDiskQueue("q", dir, 1<<20, 100, time.Hour).(*DiskQueue)
	n := 4089 + verifChoice("delta", 4)
	long := make([]byte, n)
	for i := range long {
		long[i] = 'a'
	}
	long[0], long[n-1] = verifByte("first"), verifByte("last")
	model := [][]byte{long}
	verifAssert(q.Put(long) == nil, "put-ok")
	for i := 0; i < 2; i++ {
		m := verifBytes("m", 1+verifChoice("m.len", 2))
		verifAssert(q.Put(m) == nil, "put-ok")
		model = append(model, append([]byte{}, m...))
	}
	if verifBool("reopen") {
		verifAssert(q.Close() == nil, "close-ok")
		q = NewDiskQueue("q", dir, 1<<20, 100, time.Hour).(*DiskQueue)
	}
	verifSettle()
	verifAssert(q.Depth() == int64(len(model)), "depth-equals-undelivered")
	for i := range model {
		got, ok := verifRecv(q.ReadChan())
		verifAssert(ok, "message-available-when-enqueued")
		if !ok {
			return
		}
		verifAssert(string(got) == string(model[i]), "fifo-head-byte-for-byte")
	}
	_, ok := verifRecv(q.ReadChan())
	verifAssert(!ok, "no-phantom-message")
	verifSettle()
	verifAssert(q.Depth() == 0, "depth-zero-after-drain")
	verifCover("end")
}

// VerifC09CloseWhileConsuming: a consumer goroutine keeps receiving from ReadChan (as the spool's forwarder does)
// while the queue is closed; the interleaving of the close with the deliveries is a decision variable (bounded
// preemption at lock / channel operations). After reopening, what the consumer got before plus what is delivered
// afterwards is exactly the enqueued messages, in order, each once, and the depth at reopen equals the number not
// yet delivered.
func VerifC09CloseWhileConsuming() {
	dir := verifTempDir()
	VerifCrashPoint = func(string) { verifFsHooked() }
	q := NewDiskQueue("q", dir, 1<<20, 100, time.Hour).(*DiskQueue)
	n := 2 + verifChoice("nmsgs", 2)
	var model [][]byte
	for i := 0; i < n; i++ {
		m := []byte{byte('a' + i), verifByte("payload")}
		verifAssert(q.Put(m) == nil, "put-ok")
		model = append(model, m)
	}
	verifSettle()
	var got [][]byte
	stop := make(chan bool)
	done := make(chan bool)
	rc := q.ReadChan()
	go func() {
		for {
			select {
			case m := <-rc:
				got = append(got, m)
			case <-stop:
				done <- true
				return
			}
		}
	}()
	verifPreemptions(verifParamInt("preemptions", 2))
	err := q.Close()
	verifPreemptions(0)
	verifAssert(err == nil, "close-ok")
	stop <- true
	<-done
	q2 := NewDiskQueue("q", dir, 1<<20, 100, time.Hour).(*DiskQueue)
	verifSettle()
	verifAssert(q2.Depth() == int64(len(model)-len(got)), "depth-equals-undelivered")
	all := append([][]byte{}, got...)
	for len(all) <= len(model) {
		m, ok := verifRecv(q2.ReadChan())
		if !ok {
			break
		}
		all = append(all, m)
	}
	verifAssert(len(all) == len(model), "drain-count")
	if len(all) == len(model) {
		verifAssert(verifFlat(all) == verifFlat(model), "drain-content-in-order")
	}
	verifCover("end")
}
