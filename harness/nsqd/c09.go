//go:build verif

package nsqd

import "time"

// VerifC09Fifo: any history over {put(m), get, close+reopen} against a model FIFO, for symbolic
// message contents (0..2 bytes), symbolic maxBytesPerFile >= 1 and syncEvery >= 1.
func VerifC09Fifo() {
	dir := verifTempDir()
	VerifCrashPoint = func(string) { verifFsHooked() }
	maxBytes, syncEvery := verifParams()
	q := NewDiskQueue("q", dir, maxBytes, syncEvery, time.Hour).(*DiskQueue)
	var model [][]byte
	// a fixed prefix of operations (param "prefix": p = put, g = get, r = close+reopen) followed by K free ones
	prefix := verifParam("prefix")
	K := verifNumOps()
	for i := 0; i < len(prefix)+K; i++ {
		op := 0
		if i < len(prefix) {
			switch prefix[i] {
			case 'g':
				op = 1
			case 'r':
				op = 2
			}
		} else {
			op = verifChoice("op", 3)
		}
		switch op {
		case 0:
			m := verifMsg("m")
			err := q.Put(m)
			verifAssert(err == nil, "put-ok")
			model = append(model, append([]byte{}, m...))
		case 1:
			got, ok := verifRecv(q.ReadChan())
			if ok {
				verifAssert(len(model) > 0, "no-phantom-message")
				if len(model) > 0 {
					verifAssert(string(got) == string(model[0]), "fifo-head-byte-for-byte")
					model = model[1:]
				}
			} else {
				verifAssert(len(model) == 0, "message-available-when-enqueued")
			}
		case 2:
			err := q.Close()
			verifAssert(err == nil, "close-ok")
			q = NewDiskQueue("q", dir, maxBytes, syncEvery, time.Hour).(*DiskQueue)
		}
	}
	verifSettle()
	verifAssert(q.Depth() == int64(len(model)), "depth-equals-undelivered")
	// drain: exactly the remaining model, in order, then nothing
	var rest [][]byte
	for len(rest) <= len(model) {
		m, ok := verifRecv(q.ReadChan())
		if !ok {
			break
		}
		rest = append(rest, m)
	}
	verifAssert(len(rest) == len(model), "drain-count")
	if len(rest) == len(model) {
		verifAssert(verifFlat(rest) == verifFlat(model), "drain-content-in-order")
	}
	verifSettle()
	verifAssert(q.Depth() == 0, "depth-zero-after-drain")
	verifCover("end")
}
