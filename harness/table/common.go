//go:build verif

package table

import (
	dest "github.com/grafana/carbon-relay-ng/destination"
	"github.com/grafana/carbon-relay-ng/matcher"
	"github.com/grafana/carbon-relay-ng/route"
	"github.com/grafana/carbon-relay-ng/validate"
	m20 "github.com/metrics20/go-metrics20/carbon20"
)

// verifCapRoute is a capture route: real matcher as filter, Dispatch records what it is handed.
type verifCapRoute struct {
	key string
	m   matcher.Matcher
	got [][]byte
}

func (r *verifCapRoute) Dispatch(buf []byte)        { r.got = append(r.got, buf) }
func (r *verifCapRoute) Match(s []byte) bool        { return r.m.Match(s) }
func (r *verifCapRoute) Snapshot() route.Snapshot   { return route.Snapshot{Matcher: r.m, Key: r.key, Type: "capture"} }
func (r *verifCapRoute) Key() string                { return r.key }
func (r *verifCapRoute) Flush() error               { return nil }
func (r *verifCapRoute) Shutdown() error            { return nil }
func (r *verifCapRoute) GetDestination(index int) (*dest.Destination, error) { return nil, nil }
func (r *verifCapRoute) DelDestination(index int) error                      { return nil }
func (r *verifCapRoute) UpdateDestination(index int, opts map[string]string) error { return nil }
func (r *verifCapRoute) Update(opts map[string]string) error                 { return nil }

func verifNewTable(legacy m20.ValidationLevelLegacy, lm20 m20.ValidationLevelM20, order bool) *Table {
	cfg, err := NewTableConfig("/tmp/verif-spool", "24h", validate.LevelLegacy{Level: legacy}, validate.LevelM20{Level: lm20}, order)
	if err != nil {
		panic(err)
	}
	return New(cfg)
}

// verifSymMatcher builds a matcher whose only option is a one-byte symbolic prefix, so that the
// accept/reject outcomes of different entries are independent (any subset can accept a given name).
func verifSymMatcher(tag string) matcher.Matcher {
	prefix := verifString(tag+".prefix", 1)
	m, err := matcher.New(prefix, "", "", "", "", "")
	if err != nil {
		panic(err)
	}
	return m
}

// verifName returns a symbolic metric name of n non-space printable bytes without '=' (legacy names).
func verifName(n int) []byte {
	name := verifBytes("name", n)
	for _, b := range name {
		verifAssume(b > 0x20 && b < 0x7f && b != '=' && b != '_' && b != ';')
	}
	return name
}
