//go:build verif

package table

import (
	"time"

	"github.com/grafana/carbon-relay-ng/aggregator"
	"github.com/grafana/carbon-relay-ng/matcher"
	"github.com/grafana/carbon-relay-ng/stats"
	m20 "github.com/metrics20/go-metrics20/carbon20"
)

// VerifC19Table: with order validation on, a sequence of three points over two names (symbolic, possibly
// equal, possibly differing only by a leading dot) is forwarded exactly according to the max-register
// specification per series name; every rejection is counted out_of_order, reported as a bad metric and
// forwarded nowhere; order validation comes after validation and before the blacklist.
func VerifC19Table() {
	t := verifNewTable(m20.NoneLegacy, m20.NoneM20, true)
	all, _ := matcher.New("", "", "", "", "", "")
	r := &verifCapRoute{key: "r", m: all}
	t.AddRoute(r)
	// an aggregation that matches everything: a rejected point must not contribute to any aggregate either
	aggregator.InitMetrics()
	am, _ := matcher.New("", "", "", "", ".*", "")
	agg, aerr := aggregator.NewMocked("sum", am, "agg", false, 10, 20, false, make(chan []byte, 4), 4, verifNowFixed, make(chan time.Time))
	if aerr != nil {
		panic(aerr)
	}
	t.AddAggregator(agg)
	aggIn := stats.Counter("unit=Metric.direction=in.aggregator=" + agg.Key)
	base := verifName(2)
	verifAssume(base[0] != '.' && base[1] != '.')
	names := [][]byte{base, append([]byte{'.'}, base...)} // ".ab" is the same series as "ab"
	other := verifName(2)
	verifAssume(other[0] != '.' && other[1] != '.')
	same := other[0] == base[0] && other[1] == base[1]
	names = append(names, other)
	last := map[int]uint32{}
	ooo := stats.Counter("unit=Err.type=out_of_order")
	for i := 0; i < len(verifParam("points")); i++ {
		w := verifChoice("which", 3)
		d := verifByte("tsdigit")
		verifAssume(d >= '0' && d <= '9')
		ts := uint32(d - '0')
		line := append(append([]byte{}, names[w]...), ' ', '1', ' ', d)
		reg := 0
		if w == 2 && !same {
			reg = 1
		}
		n0, o0, a0 := len(r.got), ooo.Count(), aggIn.Count()
		t.Dispatch(line)
		verifSettle()
		if ts > last[reg] {
			verifAssert(aggIn.Count() == a0+1, "newer-point-reaches-the-aggregation")
			verifAssert(len(r.got) == n0+1, "newer-point-forwarded")
			verifAssert(ooo.Count() == o0, "newer-point-not-counted")
			last[reg] = ts
		} else {
			verifAssert(len(r.got) == n0, "not-newer-point-forwarded-nowhere")
			verifAssert(aggIn.Count() == a0, "not-newer-point-reaches-no-aggregation")
			verifAssert(ooo.Count() == o0+1, "not-newer-point-counted-out-of-order")
			verifSettle()
			recs := t.Bad().Get(24 * time.Hour)
			found := false
			for _, rec := range recs {
				if rec.LastMsg == string(line) {
					found = true
				}
			}
			verifAssert(found, "not-newer-point-reported-as-bad-metric")
		}
	}
	verifCover("end")
}
