//go:build verif

package table

import (
	dest "github.com/grafana/carbon-relay-ng/destination"
	"github.com/grafana/carbon-relay-ng/matcher"
	"github.com/grafana/carbon-relay-ng/route"
	"github.com/grafana/carbon-relay-ng/stats"
	m20 "github.com/metrics20/go-metrics20/carbon20"
)

func verifOptMatcher(tag string) matcher.Matcher {
	s := verifString(tag+".opt", 1)
	var m matcher.Matcher
	var err error
	switch verifChoice(tag+".which", 4) {
	case 0:
		m, err = matcher.New(s, "", "", "", "", "")
	case 1:
		m, err = matcher.New("", s, "", "", "", "")
	case 2:
		m, err = matcher.New("", "", s, "", "", "")
	default:
		m, err = matcher.New("", "", "", s, "", "")
	}
	if err != nil {
		panic(err)
	}
	return m
}

func verifTok(tag string, n int) []byte {
	b := verifBytes(tag, n)
	for _, c := range b {
		verifAssume(c > 0x20 && c < 0x7f)
	}
	return b
}

// VerifC03AggRouteName: routing of aggregation output (DispatchAggregate) decides on the metric name only.
func VerifC03AggRouteName() {
	t := verifNewTable(m20.NoneLegacy, m20.NoneM20, false)
	r := &verifCapRoute{key: "r", m: verifOptMatcher("route")}
	t.AddRoute(r)
	name := verifTok("name", 1+verifChoice("namelen", 2))
	line := append([]byte{}, name...)
	line = append(line, ' ')
	line = append(line, verifTok("val", 1)...)
	line = append(line, ' ')
	line = append(line, verifTok("ts", 1)...)
	t.DispatchAggregate(line)
	want := r.m.Match(name)
	verifAssert((len(r.got) == 1) == want, "aggregate-route-filter-on-name-only")
	verifCover("end")
}

// VerifC03TableName: blacklist and route filters in Dispatch decide on the name only.
func VerifC03TableName() {
	t := verifNewTable(m20.NoneLegacy, m20.NoneM20, false)
	bl := verifOptMatcher("black")
	t.AddBlacklist(&bl)
	r := &verifCapRoute{key: "r", m: verifOptMatcher("route")}
	t.AddRoute(r)
	name := verifName(1 + verifChoice("namelen", 2))
	d1 := verifByte("valdigit")
	d2 := verifByte("tsdigit")
	verifAssume(d1 >= '0' && d1 <= '9' && d2 >= '0' && d2 <= '9')
	line := append([]byte{}, name...)
	line = append(line, ' ', d1, ' ', d2)
	t.Dispatch(line)
	want := !bl.Match(name) && r.m.Match(name)
	verifAssert((len(r.got) == 1) == want, "table-filters-on-name-only")
	verifCover("end")
}

// VerifC03TableDestName: the whole way from Table.Dispatch to a destination filter inside a real
// send-all / send-first route: the filter decides on the metric name only, whatever white space separates
// the fields of the received line (space or tab) and whatever the value and timestamp tokens are.
// The destination is not connected (no spool): a line it accepts is counted by its conn_down_no_spool counter.
func VerifC03TableDestName() {
	t := verifNewTable(m20.NoneLegacy, m20.NoneM20, false)
	dm := verifOptMatcher("dest")
	d, err := dest.New("r", dm, "127.0.0.1:2103", "/tmp/verif-spool", false, false, 1e9, 1e9, 10, 100, 10, 1000, 10, 1e9, 1e6, 1e6)
	if err != nil {
		panic(err)
	}
	all, _ := matcher.New("", "", "", "", "", "")
	var r route.Route
	if verifBool("firstmatch") {
		r, err = route.NewSendFirstMatch("r", all, []*dest.Destination{d})
	} else {
		r, err = route.NewSendAllMatch("r", all, []*dest.Destination{d})
	}
	if err != nil {
		panic(err)
	}
	t.AddRoute(r)
	verifSettle()
	name := verifName(1 + verifChoice("namelen", 2))
	sep1, sep2 := verifByte("sep1"), verifByte("sep2")
	verifAssume(verifOr(sep1 == ' ', sep1 == '\t'))
	verifAssume(verifOr(sep2 == ' ', sep2 == '\t'))
	val, ts := verifTok("val", 1), verifTok("ts", 1)
	verifAssume(verifAnd(val[0] >= '0', val[0] <= '9'))
	verifAssume(verifAnd(ts[0] >= '0', ts[0] <= '9'))
	line := append([]byte{}, name...)
	line = append(line, sep1)
	line = append(line, val...)
	line = append(line, sep2)
	line = append(line, ts...)
	c := stats.Counter("dest=" + d.Key + ".unit=Metric.action=drop.reason=conn_down_no_spool")
	before := c.Count()
	t.Dispatch(line)
	verifSettle()
	want := dm.Match(name)
	verifAssert((c.Count()-before == 1) == want && (c.Count()-before <= 1), "destination-filter-behind-the-table-decides-on-the-name-only")
	verifCover("end")
}
