//go:build verif

package table

import (
	"github.com/grafana/carbon-relay-ng/matcher"
	m20 "github.com/metrics20/go-metrics20/carbon20"
)

func verifOptMatcher(tag string) matcher.Matcher {
	s := verifString(tag+".opt", 1)
	var m matcher.Matcher
	var err error
	switch verifChoice(tag+".which", 4) {
	case 0:
		m, err = matcher.New(s, "", "", "", "", "")
	case 1:
		m, err = matcher.New("", s, "", "", "", "")
	case 2:
		m, err = matcher.New("", "", s, "", "", "")
	default:
		m, err = matcher.New("", "", "", s, "", "")
	}
	if err != nil {
		panic(err)
	}
	return m
}

func verifTok(tag string, n int) []byte {
	b := verifBytes(tag, n)
	for _, c := range b {
		verifAssume(c > 0x20 && c < 0x7f)
	}
	return b
}

// VerifC03AggRouteName: routing of aggregation output (DispatchAggregate) decides on the metric name only.
func VerifC03AggRouteName() {
	t := verifNewTable(m20.NoneLegacy, m20.NoneM20, false)
	r := &verifCapRoute{key: "r", m: verifOptMatcher("route")}
	t.AddRoute(r)
	name := verifTok("name", 1+verifChoice("namelen", 2))
	line := append([]byte{}, name...)
	line = append(line, ' ')
	line = append(line, verifTok("val", 1)...)
	line = append(line, ' ')
	line = append(line, verifTok("ts", 1)...)
	t.DispatchAggregate(line)
	want := r.m.Match(name)
	verifAssert((len(r.got) == 1) == want, "aggregate-route-filter-on-name-only")
	verifCover("end")
}

// VerifC03TableName: blacklist and route filters in Dispatch decide on the name only.
func VerifC03TableName() {
	t := verifNewTable(m20.NoneLegacy, m20.NoneM20, false)
	bl := verifOptMatcher("black")
	t.AddBlacklist(&bl)
	r := &verifCapRoute{key: "r", m: verifOptMatcher("route")}
	t.AddRoute(r)
	name := verifName(1 + verifChoice("namelen", 2))
	d1 := verifByte("valdigit")
	d2 := verifByte("tsdigit")
	verifAssume(d1 >= '0' && d1 <= '9' && d2 >= '0' && d2 <= '9')
	line := append([]byte{}, name...)
	line = append(line, ' ', d1, ' ', d2)
	t.Dispatch(line)
	want := !bl.Match(name) && r.m.Match(name)
	verifAssert((len(r.got) == 1) == want, "table-filters-on-name-only")
	verifCover("end")
}
