//go:build verif

package table

import (
	"regexp"
	"time"

	"github.com/grafana/carbon-relay-ng/aggregator"
	"github.com/grafana/carbon-relay-ng/matcher"
	"github.com/grafana/carbon-relay-ng/rewriter"
	"github.com/grafana/carbon-relay-ng/stats"
	m20 "github.com/metrics20/go-metrics20/carbon20"
)

// VerifC11Bypass: aggregation output handed to DispatchAggregate is only routed: never validated,
// blacklisted, rewritten or aggregated again, whatever the line looks like.
func VerifC11Bypass() {
	aggregator.InitMetrics()
	t := verifNewTable(m20.StrictLegacy, m20.MediumM20, false)
	all, _ := matcher.New("", "", "", "", "", "")
	t.AddBlacklist(&all) // would drop everything
	rw, _ := rewriter.New("a", "zz", "", -1)
	t.AddRewriter(rw)
	am, _ := matcher.New("", "", "", "", ".*", "")
	agg, _ := aggregator.NewMocked("sum", am, "agg", false, 10, 20, true, make(chan []byte, 4), 4, verifNowFixed, make(chan time.Time))
	t.AddAggregator(agg)
	r := &verifCapRoute{key: "r", m: verifPrefixOnly("route")}
	t.AddRoute(r)
	aggIn := stats.Counter("unit=Metric.direction=in.aggregator=" + agg.Key)

	line := verifBytes("line", 1+verifChoice("linelen", 4))
	bl0 := stats.Counter("unit=Metric.direction=blacklist").Count()
	inv0 := stats.Counter("unit=Err.type=invalid").Count()
	un0 := stats.Counter("unit=Metric.direction=unroutable").Count()
	a0 := aggIn.Count()
	mark := verifTraceMark()
	t.DispatchAggregate(line)
	verifSettle()
	name := line
	for i, b := range line {
		if b == ' ' {
			name = line[:i]
			break
		}
	}
	want := r.m.Match(name)
	if want {
		verifAssert(len(r.got) == 1, "aggregate-routed-once")
		if len(r.got) == 1 {
			verifAssert(string(r.got[0]) == string(line), "aggregate-routed-unmodified")
		}
		verifAssert(stats.Counter("unit=Metric.direction=unroutable").Count() == un0, "routed-not-unroutable")
	} else {
		verifAssert(len(r.got) == 0, "aggregate-not-routed-when-no-route-matches")
		verifAssert(stats.Counter("unit=Metric.direction=unroutable").Count() == un0+1, "unroutable-counted-once")
	}
	verifAssert(stats.Counter("unit=Metric.direction=blacklist").Count() == bl0, "aggregate-not-blacklisted")
	verifAssert(stats.Counter("unit=Err.type=invalid").Count() == inv0, "aggregate-not-validated")
	verifAssert(aggIn.Count() == a0, "aggregate-not-aggregated-again")
	if verifIsSymbolic() {
		verifAssert(verifCalledSince(mark, "rewriter.RW).Do") == 0, "structural/no-rewriter-call")
		verifAssert(verifCalledSince(mark, "Aggregator).AddMaybe") == 0, "structural/no-addmaybe-call")
		verifAssert(verifCalledSince(mark, "carbon20.ValidatePacket") == 0, "structural/no-validate-call")
	}
	verifCover("end")
}

func verifPrefixOnly(tag string) matcher.Matcher {
	m, _ := matcher.New(verifString(tag+".prefix", 1), "", "", "", "", "")
	return m
}

// VerifC11NoLoop: a rule whose output name matches its own filter, wired through Table.In as in
// production, emits exactly one aggregate per bucket and never consumes its own output.
func VerifC11NoLoop() {
	aggregator.InitMetrics()
	t := verifNewTable(m20.NoneLegacy, m20.NoneM20, false)
	all, _ := matcher.New("", "", "", "", "", "")
	r := &verifCapRoute{key: "r", m: all}
	t.AddRoute(r)
	am, _ := matcher.New("", "", "", "", ".*", "")
	tick := make(chan time.Time, 1)
	dropRaw := verifBool("dropraw")
	agg, err := aggregator.NewMocked("sum", am, "agg", verifBool("cache"), 10, 20, dropRaw, t.In, 8, verifNowFixed, tick)
	if err != nil {
		panic(err)
	}
	t.AddAggregator(agg)
	aggIn := stats.Counter("unit=Metric.direction=in.aggregator=" + agg.Key)
	a0 := aggIn.Count()
	// verifNowFixed is 1500000000; the point's bucket is 1499999900 (> now - wait must hold to be accepted)
	t.Dispatch([]byte("raw.metric 5 1499999995"))
	verifSettle()
	for i := 0; i < 3; i++ {
		tick <- time.Unix(1500000100+int64(i)*10, 0)
		verifSettle()
	}
	nAgg, nRaw := 0, 0
	for _, g := range r.got {
		if len(g) >= 4 && string(g[:4]) == "agg " {
			nAgg++
		} else {
			nRaw++
		}
	}
	verifAssert(aggIn.Count() == a0+1, "aggregator-consumed-only-the-raw-point")
	verifAssert(nAgg == 1, "exactly-one-aggregate-line-routed")
	if dropRaw {
		verifAssert(nRaw == 0, "dropraw-withholds-raw-from-routes")
	} else {
		verifAssert(nRaw == 1, "raw-routed-once")
	}
	verifCover("end")
}

// VerifC11DropRaw: with drop-raw, exactly the raw metrics matched by the first aggregation's complete
// filter are withheld from later aggregations and from all routes; all others pass unaffected.
func VerifC11DropRaw() {
	aggregator.InitMetrics()
	t := verifNewTable(m20.NoneLegacy, m20.NoneM20, false)
	all, _ := matcher.New("", "", "", "", "", "")
	r := &verifCapRoute{key: "r", m: all}
	t.AddRoute(r)
	regex := verifParam("regex")
	notRegex := verifParam("notRegex")
	prefix := verifString("prefix", verifChoice("plen", 2))
	m1, err := matcher.New(prefix, "", "", "", regex, notRegex)
	if err != nil {
		panic(err)
	}
	a1, _ := aggregator.NewMocked("sum", m1, "o1", verifBool("cache"), 10, 20, true, make(chan []byte, 4), 4, verifNowFixed, make(chan time.Time))
	m2, _ := matcher.New("", "", "", "", ".*", "")
	a2, _ := aggregator.NewMocked("sum", m2, "o2", false, 10, 20, false, make(chan []byte, 4), 4, verifNowFixed, make(chan time.Time))
	t.AddAggregator(a1)
	t.AddAggregator(a2)
	in1 := stats.Counter("unit=Metric.direction=in.aggregator=" + a1.Key)
	in2 := stats.Counter("unit=Metric.direction=in.aggregator=" + a2.Key)
	c1, c2 := in1.Count(), in2.Count()
	name := verifName(1 + verifChoice("namelen", 3))
	// param "ts": the point's timestamp (default: inside the open window; "1499999900": its bucket is already past
	// the wait window on the aggregation's clock -- a late point is consumed all the same when the filter matches)
	tsTok := "1499999995"
	if p := verifParam("ts"); p != "" {
		tsTok = p
	}
	line := append(append([]byte{}, name...), []byte(" 1 "+tsTok)...)
	t.Dispatch(line)
	verifSettle()
	consumed := true
	if len(prefix) > 0 && name[0] != prefix[0] {
		consumed = false
	}
	if regex != "" && !regexp.MustCompile(regex).Match(name) {
		consumed = false
	}
	if notRegex != "" && regexp.MustCompile(notRegex).Match(name) {
		consumed = false
	}
	if consumed {
		verifAssert(in1.Count() == c1+1, "consumed-by-dropraw-aggregation")
		verifAssert(in2.Count() == c2, "withheld-from-later-aggregation")
		verifAssert(len(r.got) == 0, "withheld-from-routes")
	} else {
		verifAssert(in1.Count() == c1, "not-consumed-by-dropraw-aggregation")
		verifAssert(in2.Count() == c2+1, "reaches-later-aggregation")
		verifAssert(len(r.got) == 1, "reaches-routes")
	}
	// the same name again (now possibly answered from the match cache): same treatment
	c1, c2 = in1.Count(), in2.Count()
	n0 := len(r.got)
	line2 := append(append([]byte{}, name...), []byte(" 2 1499999996")...)
	t.Dispatch(line2)
	verifSettle()
	if consumed {
		verifAssert(in1.Count() == c1+1, "second-occurrence-consumed")
		verifAssert(in2.Count() == c2, "second-occurrence-withheld-from-later-aggregation")
		verifAssert(len(r.got) == n0, "second-occurrence-withheld-from-routes")
	} else {
		verifAssert(in1.Count() == c1, "second-occurrence-not-consumed")
		verifAssert(in2.Count() == c2+1, "second-occurrence-reaches-later-aggregation")
		verifAssert(len(r.got) == n0+1, "second-occurrence-reaches-routes")
	}
	verifCover("end")
}

// VerifC11Backpressure: drop-raw stays exact under back-pressure. The drop-raw aggregation's worker is stuck
// handing over an aggregate (nobody takes its output yet) and its input buffer (1 slot) is full when a further
// matching raw metric arrives: that metric must still be withheld from the routes and from later aggregations
// (the hand-over may wait, it may not fall through). The stuck hand-over is released afterwards.
func VerifC11Backpressure() {
	aggregator.InitMetrics()
	t := verifNewTable(m20.NoneLegacy, m20.NoneM20, false)
	all, _ := matcher.New("", "", "", "", "", "")
	r := &verifCapRoute{key: "r", m: all}
	t.AddRoute(r)
	m1, _ := matcher.New("", "", "", "", "^raw", "")
	out := make(chan []byte)
	tick := make(chan time.Time)
	a1, err := aggregator.NewMocked("sum", m1, "o1", verifBool("cache"), 10, 20, true, out, 1, verifNowFixed, tick)
	if err != nil {
		panic(err)
	}
	m2, _ := matcher.New("", "", "", "", ".*", "")
	a2, _ := aggregator.NewMocked("sum", m2, "o2", false, 10, 20, false, make(chan []byte, 4), 4, verifNowFixed, make(chan time.Time))
	t.AddAggregator(a1)
	t.AddAggregator(a2)
	in2 := stats.Counter("unit=Metric.direction=in.aggregator=" + a2.Key)
	c2 := in2.Count()
	t.Dispatch([]byte("raw.a 1 1499999995"))
	verifSettle()
	tick <- time.Unix(1500000020, 0) // the bucket of the first point is due: the worker blocks handing the aggregate over
	verifSettle()
	t.Dispatch([]byte("raw.b 1 1500000005")) // fills the input buffer
	done := make(chan bool, 1)
	go func() {
		t.Dispatch([]byte("raw.c 1 1500000006")) // input buffer full
		done <- true
	}()
	verifSettle()
	got := <-out // release the worker
	verifSettle()
	<-done
	verifSettle()
	verifAssert(len(got) > 0, "aggregate-emitted")
	verifAssert(len(r.got) == 0, "consumed-raw-metric-withheld-from-routes-under-back-pressure")
	verifAssert(in2.Count() == c2, "consumed-raw-metric-withheld-from-later-aggregation-under-back-pressure")
	verifCover("end")
}
