//go:build verif

package table

import (
	"bytes"
	"regexp"
	"time"

	"github.com/grafana/carbon-relay-ng/aggregator"
	"github.com/grafana/carbon-relay-ng/matcher"
	"github.com/grafana/carbon-relay-ng/rewriter"
	m20 "github.com/metrics20/go-metrics20/carbon20"
)

// verifSpecReplace: reference for a literal rewriter: skip if `not` (non-empty) occurs in name; replace the
// first max non-overlapping occurrences of old (left to right), max < 0 meaning all.
func verifSpecReplace(name, old, nw, not []byte, max int) []byte {
	if len(not) > 0 {
		for i := 0; i+len(not) <= len(name); i++ {
			if string(name[i:i+len(not)]) == string(not) {
				return name
			}
		}
	}
	var out []byte
	done := 0
	for i := 0; i < len(name); {
		if (max < 0 || done < max) && i+len(old) <= len(name) && string(name[i:i+len(old)]) == string(old) {
			out = append(out, nw...)
			i += len(old)
			done++
		} else {
			out = append(out, name[i])
			i++
		}
	}
	return out
}

func verifWs(tag string) []byte {
	n := 1
	if verifParam("ws") == "2" {
		n = 1 + verifChoice(tag+".n", 2)
	}
	ws := verifBytes(tag, n)
	for _, b := range ws {
		verifAssume(b == ' ' || b == '\t')
	}
	return ws
}

// VerifC04Content: delivered line = rewritten name + " " + value token + " " + timestamp token, byte for byte,
// for any whitespace layout and any list of up to two literal rewriters.
func VerifC04Content() {
	t := verifNewTable(m20.NoneLegacy, m20.NoneM20, false)
	all, _ := matcher.New("", "", "", "", "", "")
	r := &verifCapRoute{key: "r", m: all}
	t.AddRoute(r)
	nrw := len(verifParam("nrw"))
	type rwspec struct {
		old, nw, not []byte
		max      int
	}
	var specs []rwspec
	for i := 0; i < nrw; i++ {
		old := verifBytes("old", 1)
		nw := verifBytes("new", verifChoice("newlen", 2))
		notlen := 0
		if i == 0 {
			notlen = verifChoice("notlen", 2)
		}
		not := verifBytes("not", notlen)
		for _, b := range old {
			verifAssume(b > 0x20 && b < 0x7f && b != '/')
		}
		for _, b := range nw {
			verifAssume(b > 0x20 && b < 0x7f)
		}
		for _, b := range not {
			verifAssume(b > 0x20 && b < 0x7f && b != '/')
		}
		max := -1
		if i == 0 {
			max = verifChoice("max", 4) - 1
		}
		rw, err := rewriter.New(string(old), string(nw), string(not), max)
		verifAssert(err == nil, "rewriter-accepted")
		if err != nil {
			return
		}
		t.AddRewriter(rw)
		specs = append(specs, rwspec{old, nw, not, max})
	}
	name := verifName(1 + verifChoice("namelen", 3))
	d1 := verifByte("valdigit")
	d2 := verifByte("tsdigit")
	verifAssume(d1 >= '0' && d1 <= '9' && d2 >= '0' && d2 <= '9')
	var line []byte
	if verifParam("ws") == "2" && verifBool("leading-ws") {
		line = append(line, verifWs("ws0")...)
	}
	line = append(line, name...)
	line = append(line, verifWs("ws1")...)
	line = append(line, d1)
	line = append(line, verifWs("ws2")...)
	line = append(line, d2)
	t.Dispatch(line)

	want := append([]byte{}, name...)
	for _, s := range specs {
		want = verifSpecReplace(want, s.old, s.nw, s.not, s.max)
	}
	want = append(want, ' ', d1, ' ', d2)
	verifAssert(len(r.got) == 1, "delivered-once")
	if len(r.got) == 1 {
		verifAssert(string(r.got[0]) == string(want), "line-is-rewritten-name-value-timestamp")
	}
	verifCover("end")
}

// VerifC04Isolation: the relay neither modifies nor keeps the caller's buffer; all routes get identical,
// stable content.
func VerifC04Isolation() {
	t := verifNewTable(m20.NoneLegacy, m20.NoneM20, false)
	all, _ := matcher.New("", "", "", "", "", "")
	r1 := &verifCapRoute{key: "r1", m: all}
	r2 := &verifCapRoute{key: "r2", m: all}
	t.AddRoute(r1)
	t.AddRoute(r2)
	if verifBool("with-rewriter") {
		rw, _ := rewriter.New("a", "bb", "", -1)
		t.AddRewriter(rw)
	}
	name := verifName(1 + verifChoice("namelen", 2))
	line := append(append([]byte{}, name...), []byte(" 1 2")...)
	orig := string(line)
	t.Dispatch(line)
	verifAssert(string(line) == orig, "caller-buffer-not-modified")
	verifAssert(len(r1.got) == 1 && len(r2.got) == 1, "both-routes-got-it")
	if len(r1.got) != 1 || len(r2.got) != 1 {
		return
	}
	d1 := string(r1.got[0])
	verifAssert(d1 == string(r2.got[0]), "routes-got-identical-content")
	verifAssert(!verifSameBacking(r1.got[0], line), "delivered-line-does-not-alias-caller-buffer")
	// the reader reuses its buffer for the next line
	for i := range line {
		line[i] = verifByte("overwrite")
	}
	verifAssert(string(r1.got[0]) == d1 && string(r2.got[0]) == d1, "delivered-line-stable-after-buffer-reuse")
	verifCover("end")
}

// VerifC04IsolationAgg: a point queued in an aggregation's inbox is not affected when the reader reuses
// its buffer right after the hand-off (the aggregation must see the name it was handed, not what the
// buffer holds later); with and without a rewriter that is skipped by its not-clause.
func VerifC04IsolationAgg() {
	aggregator.InitMetrics()
	t := verifNewTable(m20.NoneLegacy, m20.NoneM20, false)
	if verifBool("with-skipped-rewriter") {
		rw, _ := rewriter.New("a", "bb", "a", -1) // never applies: its not-clause matches whenever old does
		t.AddRewriter(rw)
	}
	am, _ := matcher.New("", "", "", "", "(.*)", "")
	out := make(chan []byte, 4)
	tick := make(chan time.Time, 1)
	agg, err := aggregator.NewMocked("sum", am, "agg.$1", false, 10, 20, false, out, 4, verifNowFixed, tick)
	if err != nil {
		panic(err)
	}
	t.AddAggregator(agg)
	name := verifName(2)
	line := append(append([]byte{}, name...), []byte(" 5 1499999995")...)
	orig := append([]byte{}, name...)
	t.Dispatch(line)
	// the aggregation goroutine has not run yet; the reader now reuses its buffer
	for i := range line {
		line[i] = 'X'
	}
	verifSettle()
	tick <- time.Unix(1500000100, 0)
	verifSettle()
	select {
	case got := <-out:
		verifAssert(bytes.Contains(got, orig), "aggregation-saw-the-name-it-was-handed")
	default:
		verifAssert(false, "aggregation-produced-output")
	}
	verifCover("end")
}

// verifC04Rules: concrete rewriter rules covering every combination of literal / regex `old` with
// substring / regex / absent not-clause (the clauses the statement lists), including the corner spellings
// "/" (a literal slash, not a regex) and a regex rule with ${n} expansion.
var verifC04Rules = []struct {
	old, nw, not string
	max          int
}{
	{"a", "b", "/c$/", -1},       // literal rule, regex not-clause
	{"a", "bb", "/^c/", 1},        // literal rule with max, regex not-clause
	{"/a+/", "x", "b", -1},        // regex rule, substring not-clause
	{"/a/", "b", "/^c/", -1},      // regex rule, regex not-clause
	{"/(a)(b)/", "${2}${1}", "", -1}, // regex rule with expansion
	{"/", ".", "", -1},            // one-character literal "/"
	{"a", "b", "/", -1},           // not-clause that is the literal "/"
	{"/a", "b", "c/", -1},         // slashes on one side only: literals
}

// VerifC04Rules: Table.Dispatch with one rule of the family above and a symbolic name. Reference: the rule is
// skipped iff its not-clause (regex when spelled /…/ with at least one character between the slashes... i.e.
// length > 1, else substring) matches the name; otherwise a /regex/ rule replaces every match with ${n}
// expansion and a literal rule replaces the first max occurrences. The reference uses the regexp library
// directly, so what is checked is which clause is applied to what, not the library.
func VerifC04Rules() {
	k := verifParamInt("rule", 0)
	rule := verifC04Rules[k]
	t := verifNewTable(m20.NoneLegacy, m20.NoneM20, false)
	all, _ := matcher.New("", "", "", "", "", "")
	r := &verifCapRoute{key: "r", m: all}
	t.AddRoute(r)
	rw, err := rewriter.New(rule.old, rule.nw, rule.not, rule.max)
	verifAssert(err == nil, "rewriter-accepted")
	if err != nil {
		return
	}
	t.AddRewriter(rw)
	name := verifBytes("name", 1+verifChoice("namelen", verifParamInt("maxname", 3)))
	for _, b := range name {
		verifAssume(b > 0x20 && b < 0x7f && b != '=' && b != '_' && b != ';')
	}
	line := append(append([]byte{}, name...), []byte(" 1 2")...)
	t.Dispatch(line)

	isRe := func(s string) bool { return len(s) > 1 && s[0] == '/' && s[len(s)-1] == '/' }
	want := append([]byte{}, name...)
	skip := false
	if isRe(rule.not) {
		skip = regexp.MustCompile(rule.not[1 : len(rule.not)-1]).Match(name)
	} else if rule.not != "" {
		skip = bytes.Contains(name, []byte(rule.not))
	}
	if !skip {
		if isRe(rule.old) {
			want = regexp.MustCompile(rule.old[1:len(rule.old)-1]).ReplaceAll(name, []byte(rule.nw))
		} else {
			want = verifSpecReplace(name, []byte(rule.old), []byte(rule.nw), nil, rule.max)
		}
	}
	want = append(append([]byte{}, want...), []byte(" 1 2")...)
	verifAssert(len(r.got) == 1, "delivered-once")
	if len(r.got) == 1 {
		verifAssert(string(r.got[0]) == string(want), "rule-applied-or-skipped-as-its-clauses-say")
	}
	verifCover("end")
}

// VerifC04AfterChange: the rewriters applied to a line are the ones configured *when the line is handed over*.
// The same name is dispatched before and after one runtime change of the rewriter list (a rule deleted, a rule
// added, nothing); the second line must be rewritten by exactly the rules then configured, whatever was
// forwarded for that name earlier. Two literal rules to start with; the name has 2 free bytes from {a,b,c,d}.
func VerifC04AfterChange() {
	t := verifNewTable(m20.NoneLegacy, m20.NoneM20, false)
	all, _ := matcher.New("", "", "", "", "", "")
	r := &verifCapRoute{key: "r", m: all}
	t.AddRoute(r)
	type rule struct{ old, nw string }
	rules := []rule{{"a", "x"}, {"b", "yy"}}
	for _, ru := range rules {
		rw, err := rewriter.New(ru.old, ru.nw, "", -1)
		if err != nil {
			panic(err)
		}
		t.AddRewriter(rw)
	}
	name := verifBytes("name", 2)
	for _, b := range name {
		verifAssume(b >= 'a' && b <= 'd')
	}
	mkline := func(ts string) []byte { return append(append([]byte{}, name...), []byte(" 1 "+ts)...) }
	spec := func(ts string) string {
		out := append([]byte{}, name...)
		for _, ru := range rules {
			out = bytes.Replace(out, []byte(ru.old), []byte(ru.nw), -1)
		}
		return string(out) + " 1 " + ts
	}
	t.Dispatch(mkline("1"))
	verifAssert(len(r.got) == 1 && string(r.got[0]) == spec("1"), "line-rewritten-by-the-configured-rules")
	switch verifChoice("change", 4) {
	case 0:
		verifAssert(t.DelRewriter(0) == nil, "delrewriter-ok")
		rules = rules[1:]
	case 1:
		verifAssert(t.DelRewriter(1) == nil, "delrewriter-ok")
		rules = rules[:1]
	case 2:
		rw, _ := rewriter.New("c", "z", "", -1)
		t.AddRewriter(rw)
		rules = append(rules, rule{"c", "z"})
	}
	t.Dispatch(mkline("2"))
	verifAssert(len(r.got) == 2, "second-line-forwarded")
	if len(r.got) == 2 {
		verifAssert(string(r.got[1]) == spec("2"), "line-after-a-change-rewritten-by-the-rules-configured-then")
	}
	verifCover("end")
}

// VerifC04Tokens: the value and timestamp tokens are forwarded byte for byte as received, in every numeric
// spelling the validation accepts (exponents, hex floats, signs, leading zeros, trailing fraction, fractional
// timestamps): concrete spellings (strconv.ParseFloat runs natively on them), a free name of 1..2 bytes and one
// rewriter; every pair of a value spelling and a timestamp spelling.
func VerifC04Tokens() {
	t := verifNewTable(m20.NoneLegacy, m20.NoneM20, false)
	all, _ := matcher.New("", "", "", "", "", "")
	r := &verifCapRoute{key: "r", m: all}
	t.AddRoute(r)
	rw, err := rewriter.New("a", "bb", "", -1)
	if err != nil {
		panic(err)
	}
	t.AddRewriter(rw)
	spell := []string{"1e3", "0x1p-2", "+5", "1.50", "007", "1500000002.0", "1.5e9", "-0", ".5", "5.", "01500000004", "+1500000005", "1500000003.75"}
	val := spell[verifChoice("value-spelling", len(spell))]
	ts := spell[verifChoice("timestamp-spelling", len(spell))]
	name := verifName(1 + verifChoice("namelen", 2))
	line := append(append([]byte{}, name...), []byte(" "+val+" "+ts)...)
	t.Dispatch(line)
	want := string(verifSpecReplace(name, []byte("a"), []byte("bb"), nil, -1)) + " " + val + " " + ts
	verifAssert(len(r.got) == 1, "delivered-once")
	if len(r.got) == 1 {
		verifAssert(string(r.got[0]) == want, "value-and-timestamp-tokens-forwarded-byte-for-byte")
	}
	verifCover("end")
}
