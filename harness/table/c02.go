//go:build verif

package table

import (
	"bytes"
	"time"

	"github.com/grafana/carbon-relay-ng/aggregator"
	"github.com/grafana/carbon-relay-ng/matcher"
	"github.com/grafana/carbon-relay-ng/rewriter"
	"github.com/grafana/carbon-relay-ng/stats"
	"github.com/grafana/carbon-relay-ng/validate"
	m20 "github.com/metrics20/go-metrics20/carbon20"
)

func verifNowFixed() time.Time { return time.Unix(1500000000, 0) }

// VerifC02Gate: for an arbitrary byte string offered as a line and all 3x2 configured levels:
// forwarded (route and aggregation) <=> ValidatePacket at exactly the configured levels accepts;
// rejection => invalid+1, nothing forwarded, one bad-metrics record (name, line, reason); in+1 always.
func VerifC02Gate() {
	legacy := m20.ValidationLevelLegacy(verifChoice("legacy", 3))
	lm20 := m20.ValidationLevelM20(1 + verifChoice("m20", 2))
	t := verifNewTable(legacy, lm20, false)
	all, _ := matcher.New("", "", "", "", "", "")
	r := &verifCapRoute{key: "r", m: all}
	t.AddRoute(r)
	aggregator.InitMetrics()
	aggM, _ := matcher.New("", "", "", "", ".*", "")
	aggOut := make(chan []byte, 4)
	agg, err := aggregator.NewMocked("sum", aggM, "agg", false, 10, 20, false, aggOut, 4, verifNowFixed, make(chan time.Time))
	if err != nil {
		panic(err)
	}
	t.AddAggregator(agg)
	aggIn := stats.Counter("unit=Metric.direction=in.aggregator=" + agg.Key)
	// param blacklist=1: a blacklist entry that matches every name. Validation comes first: a line that fails it
	// is counted and reported as invalid whether or not the blacklist would have dropped it as well.
	blacklisted := verifParam("blacklist") == "1"
	if blacklisted {
		t.AddBlacklist(&all)
	}
	// param after-changes=1: the table went through runtime changes first (an entry of every kind added and deleted
	// again, so that the lists are what they were): the configured validation levels are still what decides
	if verifParam("after-changes") == "1" {
		x, _ := matcher.New("zz", "", "", "", "", "")
		t.AddBlacklist(&x)
		if blacklisted {
			t.DelBlacklist(1)
		} else {
			t.DelBlacklist(0)
		}
		t.AddRoute(&verifCapRoute{key: "r2", m: x})
		t.DelRoute("r2")
		if rw, err := rewriter.New("zz", "y", "", -1); err == nil {
			t.AddRewriter(rw)
			t.DelRewriter(0)
		}
		am2, _ := matcher.New("", "", "", "", "^zz", "")
		if a2, err := aggregator.NewMocked("sum", am2, "agg2", false, 10, 20, false, make(chan []byte, 4), 4, verifNowFixed, make(chan time.Time)); err == nil {
			t.AddAggregator(a2)
			t.DelAggregator(1)
		}
	}
	bl0 := stats.Counter("unit=Metric.direction=blacklist").Count()

	n := verifChoice("linelen", 1+len(verifParam("maxlen")))
	line := verifBytes("line", n)
	if verifParam("m20name") == "1" {
		// a line shaped like a metrics2.0 point: k=v <digit> <digit> with free k, v (what the m2.0 levels disagree on)
		line = verifBytes("line", 7)
		verifAssume(line[1] == '=' && line[3] == ' ' && line[5] == ' ')
		verifAssume(line[4] >= '0' && line[4] <= '9' && line[6] >= '0' && line[6] <= '9')
		verifAssume(line[0] > ' ' && line[2] > ' ')
	}
	if verifParam("ascii") == "1" {
		for _, b := range line {
			verifAssume(b < 0x80)
		}
	}
	in0 := stats.Counter("unit=Metric.direction=in").Count()
	inv0 := stats.Counter("unit=Err.type=invalid").Count()
	a0 := aggIn.Count()

	t.Dispatch(line)
	verifSettle()

	cp := append([]byte{}, line...)
	key, _, _, verr := m20.ValidatePacket(cp, legacy, lm20)
	in1 := stats.Counter("unit=Metric.direction=in").Count()
	inv1 := stats.Counter("unit=Err.type=invalid").Count()
	verifAssert(in1 == in0+1, "in-counted-once")
	if verr == nil && blacklisted {
		verifAssert(len(r.got) == 0 && aggIn.Count() == a0, "blacklisted-line-forwarded-nowhere")
		verifAssert(stats.Counter("unit=Metric.direction=blacklist").Count() == bl0+1, "blacklisted-line-counted-once")
		verifAssert(inv1 == inv0, "valid-line-not-counted-invalid")
	} else if verr == nil {
		verifAssert(len(r.got) == 1, "valid-line-forwarded-to-route")
		verifAssert(aggIn.Count() == a0+1, "valid-line-forwarded-to-aggregation")
		verifAssert(inv1 == inv0, "valid-line-not-counted-invalid")
		verifCover("valid")
	} else {
		verifAssert(len(r.got) == 0, "invalid-line-not-routed")
		verifAssert(aggIn.Count() == a0, "invalid-line-not-aggregated")
		verifAssert(inv1 == inv0+1, "invalid-counted-once")
		recs := t.Bad().Get(24 * time.Hour)
		verifAssert(len(recs) == 1, "one-bad-record")
		if len(recs) == 1 {
			verifAssert(recs[0].Metric == string(key), "bad-record-name")
			verifAssert(recs[0].LastMsg == string(line), "bad-record-text")
			verifAssert(recs[0].LastErr == verr.Error(), "bad-record-reason")
		}
		verifCover("invalid")
	}
	verifCover("end")
}

// VerifC02Levels: the level names of the configuration file map to the levels of the same name.
func VerifC02Levels() {
	var l validate.LevelLegacy
	verifAssert(l.UnmarshalText([]byte("strict")) == nil && l.Level == m20.StrictLegacy, "legacy-strict")
	verifAssert(l.UnmarshalText([]byte("medium")) == nil && l.Level == m20.MediumLegacy, "legacy-medium")
	verifAssert(l.UnmarshalText([]byte("none")) == nil && l.Level == m20.NoneLegacy, "legacy-none")
	var m validate.LevelM20
	verifAssert(m.UnmarshalText([]byte("medium")) == nil && m.Level == m20.MediumM20, "m20-medium")
	verifAssert(m.UnmarshalText([]byte("none")) == nil && m.Level == m20.NoneM20, "m20-none")
	// any other spelling of up to 3 bytes is rejected
	other := verifBytes("other", verifChoice("olen", 4))
	var l2 validate.LevelLegacy
	verifAssert(l2.UnmarshalText(other) != nil, "legacy-unknown-rejected")
	var m2 validate.LevelM20
	verifAssert(m2.UnmarshalText(other) != nil, "m20-unknown-rejected")
	// the configured levels are what the table uses
	cfg, err := NewTableConfig("/tmp/x", "24h", validate.LevelLegacy{Level: m20.StrictLegacy}, validate.LevelM20{Level: m20.NoneM20}, true)
	verifAssert(err == nil, "config-ok")
	verifAssert(cfg.Validation_level_legacy.Level == m20.StrictLegacy && cfg.Validation_level_m20.Level == m20.NoneM20 && cfg.Validate_order, "levels-not-swapped")
	_ = bytes.Equal
	verifCover("end")
}

// VerifC02BadReportLatest: every rejected line "becomes visible in the bad-metrics report under its name with the
// rejected text and the reason": two to three lines of one series rejected for the same reason in a row (same
// name, value tokens that are no numbers) -- after each, the report shows that line's text.
func VerifC02BadReportLatest() {
	t := verifNewTable(m20.MediumLegacy, m20.MediumM20, false)
	all, _ := matcher.New("", "", "", "", "", "")
	r := &verifCapRoute{key: "r", m: all}
	t.AddRoute(r)
	inv0 := stats.Counter("unit=Err.type=invalid").Count()
	n := 2 + verifChoice("nlines", 2)
	toks := []string{"x0", "y1", "x0"}
	for i := 0; i < n; i++ {
		// value tokens that are no numbers (concrete: strconv.ParseFloat runs natively on them); the third line
		// repeats the text of the first
		line := []byte("a.b " + toks[i] + " 1")
		t.Dispatch(line)
		verifSettle()
		recs := t.Bad().Get(24 * time.Hour)
		verifAssert(len(recs) == 1, "one-bad-record-per-name")
		if len(recs) == 1 {
			verifAssert(recs[0].Metric == "a.b", "bad-record-name")
			verifAssert(recs[0].LastMsg == string(line), "report-shows-the-text-of-the-latest-rejected-line")
		}
	}
	verifAssert(stats.Counter("unit=Err.type=invalid").Count() == inv0+int64(n), "invalid-counted-once-per-line")
	verifAssert(len(r.got) == 0, "invalid-line-not-routed")
	verifCover("end")
}
