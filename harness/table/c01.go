//go:build verif

package table

import (
	"bytes"

	"github.com/grafana/carbon-relay-ng/rewriter"
	"github.com/grafana/carbon-relay-ng/stats"
	m20 "github.com/metrics20/go-metrics20/carbon20"
)

// VerifC01Table: blacklist loop and route loop of Table.Dispatch against per-entry verdicts.
func VerifC01Table() {
	nb := verifChoice("nblack", verifParamInt("max", 3)+1)
	nr := verifChoice("nroutes", verifParamInt("max", 3)+1)
	t := verifNewTable(m20.NoneLegacy, m20.NoneM20, false)
	var routes []*verifCapRoute
	for i := 0; i < nb; i++ {
		m := verifSymMatcher("black")
		t.AddBlacklist(&m)
	}
	for i := 0; i < nr; i++ {
		r := &verifCapRoute{key: "r", m: verifSymMatcher("route")}
		routes = append(routes, r)
		t.AddRoute(r)
	}
	name := verifName(1 + verifChoice("namelen", 3))
	line := append(append([]byte{}, name...), []byte(" 1 1500000000")...)

	in0 := stats.Counter("unit=Metric.direction=in").Count()
	bl0 := stats.Counter("unit=Metric.direction=blacklist").Count()
	un0 := stats.Counter("unit=Metric.direction=unroutable").Count()
	inv0 := stats.Counter("unit=Err.type=invalid").Count()

	t.Dispatch(line)

	conf := t.config.Load().(TableConfig)
	black := false
	for _, m := range conf.blacklist {
		if m.Match(name) {
			black = true
		}
	}
	in1 := stats.Counter("unit=Metric.direction=in").Count()
	bl1 := stats.Counter("unit=Metric.direction=blacklist").Count()
	un1 := stats.Counter("unit=Metric.direction=unroutable").Count()
	inv1 := stats.Counter("unit=Err.type=invalid").Count()
	verifAssert(in1 == in0+1, "numIn+1")
	verifAssert(inv1 == inv0, "valid-line-not-invalid")
	if black {
		verifAssert(bl1 == bl0+1, "blacklisted-counted-once")
		verifAssert(un1 == un0, "blacklisted-not-unroutable")
		for _, r := range routes {
			verifAssert(len(r.got) == 0, "blacklisted-forwarded-nowhere")
		}
		verifCover("blacklisted")
		return
	}
	verifAssert(bl1 == bl0, "not-blacklisted-not-counted")
	any := false
	for _, r := range routes {
		acc := r.m.Match(name)
		if acc {
			any = true
			verifAssert(len(r.got) == 1, "matching-route-exactly-once")
			if len(r.got) == 1 {
				verifAssert(bytes.Equal(r.got[0], line), "route-got-the-line")
			}
		} else {
			verifAssert(len(r.got) == 0, "non-matching-route-gets-nothing")
		}
	}
	if any {
		verifAssert(un1 == un0, "routed-not-unroutable")
	} else {
		verifAssert(un1 == un0+1, "unroutable-counted-once")
	}
	verifCover("end")
}

// VerifC01Rewritten: routes are selected on the *rewritten* name (the name the line carries when it is
// handed over), for a rewriter that may or may not change the name and two routes with free prefix filters.
func VerifC01Rewritten() {
	t := verifNewTable(m20.NoneLegacy, m20.NoneM20, false)
	old := verifString("rw.old", 1)
	nw := verifString("rw.new", 1)
	verifAssume(old[0] > 0x20 && old[0] < 0x7f && old[0] != '/' && nw[0] > 0x20 && nw[0] < 0x7f)
	rw, err := rewriter.New(old, nw, "", -1)
	if err != nil {
		return
	}
	t.AddRewriter(rw)
	var routes []*verifCapRoute
	for i := 0; i < 2; i++ {
		r := &verifCapRoute{key: "r", m: verifSymMatcher("route")}
		routes = append(routes, r)
		t.AddRoute(r)
	}
	name := verifName(1 + verifChoice("namelen", 2))
	line := append(append([]byte{}, name...), []byte(" 1 1500000000")...)
	un0 := stats.Counter("unit=Metric.direction=unroutable").Count()
	t.Dispatch(line)
	rewritten := rw.Do(append([]byte{}, name...))
	want := append(append([]byte{}, rewritten...), []byte(" 1 1500000000")...)
	any := false
	for _, r := range routes {
		if r.m.Match(rewritten) {
			any = true
			verifAssert(len(r.got) == 1, "route-accepting-rewritten-name-gets-it-once")
			if len(r.got) == 1 {
				verifAssert(bytes.Equal(r.got[0], want), "route-gets-rewritten-line")
			}
		} else {
			verifAssert(len(r.got) == 0, "route-rejecting-rewritten-name-gets-nothing")
		}
	}
	un1 := stats.Counter("unit=Metric.direction=unroutable").Count()
	if any {
		verifAssert(un1 == un0, "routed-not-unroutable")
	} else {
		verifAssert(un1 == un0+1, "unroutable-counted-once")
	}
	verifCover("end")
}
