//go:build verif

package table

import (
	"strings"
	"time"

	"github.com/grafana/carbon-relay-ng/aggregator"
	dest "github.com/grafana/carbon-relay-ng/destination"
	"github.com/grafana/carbon-relay-ng/matcher"
	"github.com/grafana/carbon-relay-ng/rewriter"
	"github.com/grafana/carbon-relay-ng/route"
	m20 "github.com/metrics20/go-metrics20/carbon20"
)

type verifModel struct {
	routes []route.Route
	black  []*matcher.Matcher
	rws    []rewriter.RW
	aggs   []*aggregator.Aggregator
}

func verifKeys() []string { return []string{"r0", "r1", "r2", "r3", "r4", "r5"} }

func verifBuildTable(n int) (*Table, *verifModel) {
	aggregator.InitMetrics()
	t := verifNewTable(m20.NoneLegacy, m20.NoneM20, false)
	md := &verifModel{}
	keys := verifKeys()
	for i := 0; i < n; i++ {
		all, _ := matcher.New("", "", "", "", "", "")
		r := &verifCapRoute{key: keys[i], m: all}
		t.AddRoute(r)
		md.routes = append(md.routes, r)
		b, _ := matcher.New(keys[i], "", "", "", "", "")
		t.AddBlacklist(&b)
		md.black = append(md.black, &b)
		rw, _ := rewriter.New(keys[i], "x", "", -1)
		t.AddRewriter(rw)
		md.rws = append(md.rws, rw)
		am, _ := matcher.New("", "", "", "", keys[i], "")
		a, err := aggregator.NewMocked("sum", am, "o", false, 10, 20, false, make(chan []byte, 4), 4, verifNowFixed, make(chan time.Time))
		if err != nil {
			panic(err)
		}
		t.AddAggregator(a)
		md.aggs = append(md.aggs, a)
	}
	return t, md
}

// verifApplyOp applies one solver-chosen admin operation to the table and to the model list.
func verifApplyOp(t *Table, md *verifModel, n int, fresh int) {
	keys := verifKeys()
	switch verifChoice("op", 8) {
	case 0: // delete route by key (possibly unknown)
		k := verifChoice("routekey", 6)
		err := t.DelRoute(keys[k])
		verifAssert(err == nil, "delroute-no-error")
		for i, r := range md.routes {
			if r.Key() == keys[k] {
				md.routes = append(append([]route.Route{}, md.routes[:i]...), md.routes[i+1:]...)
				break
			}
		}
	case 1:
		idx := verifChoice("idx", 6)
		err := t.DelBlacklist(idx)
		if idx >= len(md.black) {
			verifAssert(err != nil, "delblacklist-bad-index-rejected")
		} else {
			verifAssert(err == nil, "delblacklist-ok")
			md.black = append(append([]*matcher.Matcher{}, md.black[:idx]...), md.black[idx+1:]...)
		}
	case 2:
		idx := verifChoice("idx", 6)
		err := t.DelRewriter(idx)
		if idx >= len(md.rws) {
			verifAssert(err != nil, "delrewriter-bad-index-rejected")
		} else {
			verifAssert(err == nil, "delrewriter-ok")
			md.rws = append(append([]rewriter.RW{}, md.rws[:idx]...), md.rws[idx+1:]...)
		}
	case 3:
		idx := verifChoice("idx", 6)
		err := t.DelAggregator(idx)
		if idx >= len(md.aggs) {
			verifAssert(err != nil, "delaggregator-bad-index-rejected")
		} else {
			verifAssert(err == nil, "delaggregator-ok")
			md.aggs = append(append([]*aggregator.Aggregator{}, md.aggs[:idx]...), md.aggs[idx+1:]...)
		}
	case 4:
		all, _ := matcher.New("", "", "", "", "", "")
		r := &verifCapRoute{key: keys[4+fresh], m: all}
		t.AddRoute(r)
		md.routes = append(md.routes, r)
	case 5:
		b, _ := matcher.New("new", "", "", "", "", "")
		t.AddBlacklist(&b)
		md.black = append(md.black, &b)
	case 6:
		rw, _ := rewriter.New("new", "x", "", -1)
		t.AddRewriter(rw)
		md.rws = append(md.rws, rw)
	case 7:
		am, _ := matcher.New("", "", "", "", "new", "")
		a, _ := aggregator.NewMocked("sum", am, "o", false, 10, 20, false, make(chan []byte, 4), 4, verifNowFixed, make(chan time.Time))
		t.AddAggregator(a)
		md.aggs = append(md.aggs, a)
	}
}

// VerifC18Table: (1) a snapshot held by a dispatcher is never changed by later admin operations
// (2) the table view after a history of operations equals the model list.
func VerifC18Table() {
	n := 1 + verifChoice("n", verifParamInt("maxn", 3))
	t, md := verifBuildTable(n)
	// what a dispatcher may already hold
	old := t.config.Load().(TableConfig)
	oldRoutes := append([]route.Route{}, old.routes...)
	oldBlack := append([]*matcher.Matcher{}, old.blacklist...)
	oldRW := append([]rewriter.RW{}, old.rewriters...)
	oldAggs := append([]*aggregator.Aggregator{}, old.aggregators...)

	nops := 1 + verifChoice("nops", verifParamInt("maxops", 2))
	for i := 0; i < nops; i++ {
		verifApplyOp(t, md, n, i)
	}

	verifAssert(len(old.routes) == len(oldRoutes) && len(old.blacklist) == len(oldBlack) && len(old.rewriters) == len(oldRW) && len(old.aggregators) == len(oldAggs), "snapshot-lengths-unchanged")
	for i := range oldRoutes {
		verifAssert(old.routes[i] == oldRoutes[i], "snapshot-routes-unchanged")
	}
	for i := range oldBlack {
		verifAssert(old.blacklist[i] == oldBlack[i], "snapshot-blacklist-unchanged")
	}
	for i := range oldRW {
		verifAssert(old.rewriters[i].Old == oldRW[i].Old, "snapshot-rewriters-unchanged")
	}
	for i := range oldAggs {
		verifAssert(old.aggregators[i] == oldAggs[i], "snapshot-aggregators-unchanged")
	}

	cur := t.config.Load().(TableConfig)
	verifAssert(len(cur.routes) == len(md.routes), "view-routes-len")
	if len(cur.routes) == len(md.routes) {
		for i := range md.routes {
			verifAssert(cur.routes[i] == md.routes[i], "view-routes-equal-model")
		}
	}
	verifAssert(len(cur.blacklist) == len(md.black), "view-blacklist-len")
	if len(cur.blacklist) == len(md.black) {
		for i := range md.black {
			verifAssert(cur.blacklist[i] == md.black[i], "view-blacklist-equal-model")
		}
	}
	verifAssert(len(cur.rewriters) == len(md.rws), "view-rewriters-len")
	if len(cur.rewriters) == len(md.rws) {
		for i := range md.rws {
			verifAssert(cur.rewriters[i].Old == md.rws[i].Old, "view-rewriters-equal-model")
		}
	}
	verifAssert(len(cur.aggregators) == len(md.aggs), "view-aggregators-len")
	if len(cur.aggregators) == len(md.aggs) {
		for i := range md.aggs {
			verifAssert(cur.aggregators[i] == md.aggs[i], "view-aggregators-equal-model")
		}
	}
	snap := t.Snapshot()
	verifAssert(len(snap.Routes) == len(md.routes) && len(snap.Blacklist) == len(md.black) && len(snap.Rewriters) == len(md.rws) && len(snap.Aggregators) == len(md.aggs), "snapshot-api-lengths")
	verifCover("end")
}

// VerifC18Readers: Dispatch and DispatchAggregate load the table snapshot exactly once.
func VerifC18Readers() {
	t, _ := verifBuildTable(2)
	mark := verifTraceMark()
	t.Dispatch([]byte("abc 1 1500000000"))
	if verifIsSymbolic() {
		verifAssert(verifCalledSince(mark, "(*sync/atomic.Value).Load") == 1, "structural/dispatch-loads-snapshot-once")
	}
	mark = verifTraceMark()
	t.DispatchAggregate([]byte("abc 1 1500000000"))
	if verifIsSymbolic() {
		verifAssert(verifCalledSince(mark, "(*sync/atomic.Value).Load") == 1, "structural/dispatchaggregate-loads-snapshot-once")
	}
	verifCover("end")
}

func verifOneLine(got [][]byte, want string) bool { return len(got) == 1 && string(got[0]) == want }

// VerifC18Concurrent: a dispatcher goroutine and an admin goroutine run at the same time; the interleaving
// is a decision variable (the engine may switch goroutines before every lock / atomic / channel operation, up
// to "preemptions" times). The admin goroutine makes TWO changes to two different lists (a rewriter or
// blacklist entry is added, then a route is deleted), chosen so that a dispatch that combined the old first
// list with the new route list would be observably different from all three tables that ever existed.
func VerifC18Concurrent() {
	t := verifNewTable(m20.NoneLegacy, m20.NoneM20, false)
	mOld, _ := matcher.New("old", "", "", "", "", "")
	all, _ := matcher.New("", "", "", "", "", "")
	rOld := &verifCapRoute{key: "rold", m: mOld}
	rAny := &verifCapRoute{key: "rany", m: all}
	t.AddRoute(rOld)
	t.AddRoute(rAny)
	kind := verifParam("kind")
	done := make(chan bool, 2)
	verifPreemptions(verifParamInt("preemptions", 1))
	go func() {
		t.Dispatch([]byte("old.x 1 1500000000"))
		done <- true
	}()
	go func() {
		if kind == "blacklist" {
			b, _ := matcher.New("old", "", "", "", "", "")
			t.AddBlacklist(&b)
		} else {
			rw, _ := rewriter.New("old", "new", "", -1)
			t.AddRewriter(rw)
		}
		t.DelRoute("rold")
		done <- true
	}()
	<-done
	<-done
	verifPreemptions(0)
	before := verifOneLine(rOld.got, "old.x 1 1500000000") && verifOneLine(rAny.got, "old.x 1 1500000000")
	var after bool // after the first change, and after both: the same observable outcome
	if kind == "blacklist" {
		after = len(rOld.got) == 0 && len(rAny.got) == 0
	} else {
		after = len(rOld.got) == 0 && verifOneLine(rAny.got, "new.x 1 1500000000")
	}
	verifAssert(before || after, "line-processed-against-one-table-that-existed")
	// and the table ends up with both changes
	snap := t.Snapshot()
	verifAssert(len(snap.Routes) == 1 && len(snap.Rewriters)+len(snap.Blacklist) == 1, "both-changes-applied")
	verifCover("end")
}

// VerifC18Writers: two admin connections change the table at the same time (every admin connection is its
// own goroutine); whatever the interleaving, no change is lost.
func VerifC18Writers() {
	t, _ := verifBuildTable(1)
	keys := verifKeys()
	all, _ := matcher.New("", "", "", "", "", "")
	opA, opB := verifChoice("opA", 4), verifChoice("opB", 4)
	apply := func(op int, tag string) {
		switch op {
		case 0:
			t.AddRoute(&verifCapRoute{key: "new" + tag, m: all})
		case 1:
			b, _ := matcher.New("", "", tag, "", "", "")
			t.AddBlacklist(&b)
		case 2:
			rw, _ := rewriter.New(tag, "y", "", -1)
			t.AddRewriter(rw)
		case 3:
			t.DelRoute(keys[0])
		}
	}
	done := make(chan bool, 2)
	verifPreemptions(verifParamInt("preemptions", 2))
	go func() { apply(opA, "A"); done <- true }()
	go func() { apply(opB, "B"); done <- true }()
	<-done
	<-done
	verifPreemptions(0)
	routes, black, rws := 1, 1, 1
	for _, op := range []int{opA, opB} {
		switch op {
		case 0:
			routes++
		case 1:
			black++
		case 2:
			rws++
		}
	}
	if opA == 3 || opB == 3 {
		routes--
	}
	snap := t.Snapshot()
	verifAssert(len(snap.Routes) == routes && len(snap.Blacklist) == black && len(snap.Rewriters) == rws && len(snap.Aggregators) == 1, "concurrent-admin-changes-both-applied")
	verifCover("end")
}

// VerifC18TableRouteOps: the admin operations that address a route by key through the table (delDest, modDest,
// modRoute -> Table.DelDestination / UpdateDestination / UpdateRoute) change exactly the addressed entry:
// an unknown route key or a destination index beyond the end is rejected with an error and leaves the table
// unchanged; otherwise only the addressed route changes, and within it only the addressed destination
// (removed / its filter replaced) resp. only the route's own filter. Two real routes (send-all, send-first)
// with two destinations each; key, index and operation are chosen by the solver.
func VerifC18TableRouteOps() {
	t := verifNewTable(m20.NoneLegacy, m20.NoneM20, false)
	all, _ := matcher.New("", "", "", "", "", "")
	keys := []string{"ra", "rb", "zz"}
	prefixes := [][]string{{"p00", "p01"}, {"p10", "p11"}}
	addrs := [][]string{{"127.0.0.1:2100", "127.0.0.1:2101"}, {"127.0.0.1:2110", "127.0.0.1:2111"}}
	for ri := 0; ri < 2; ri++ {
		var ds []*dest.Destination
		for j := 0; j < 2; j++ {
			m, _ := matcher.New(prefixes[ri][j], "", "", "", "", "")
			d, err := dest.New(keys[ri], m, addrs[ri][j], "/tmp/verif-spool", false, false, 1e9, 1e9, 10, 100, 10, 1000, 10, 1e9, 1e6, 1e6)
			if err != nil {
				panic(err)
			}
			ds = append(ds, d)
		}
		var r route.Route
		var err error
		if ri == 0 {
			r, err = route.NewSendAllMatch(keys[ri], all, ds)
		} else {
			r, err = route.NewSendFirstMatch(keys[ri], all, ds)
		}
		if err != nil {
			panic(err)
		}
		t.AddRoute(r)
	}
	verifSettle()
	before := t.Snapshot()
	kc := verifChoice("key", 3) // 2 = a key no route has
	idx := verifChoice("idx", 3) // 2 = beyond the end
	op := verifChoice("op", 3)
	var err error
	switch op {
	case 0:
		err = t.DelDestination(keys[kc], idx)
	case 1:
		err = t.UpdateDestination(keys[kc], idx, map[string]string{"prefix": "new"})
	case 2:
		err = t.UpdateRoute(keys[kc], map[string]string{"prefix": "new"})
	}
	verifSettle()
	after := t.Snapshot()
	rejected := kc == 2 || (op != 2 && idx == 2)
	if rejected {
		verifAssert(err != nil, "unknown-route-or-index-beyond-end-rejected")
	} else {
		verifAssert(err == nil, "valid-operation-accepted")
	}
	verifAssert(len(after.Routes) == 2, "both-routes-still-there")
	if len(after.Routes) != 2 {
		return
	}
	for ri := 0; ri < 2; ri++ {
		b, a := before.Routes[ri], after.Routes[ri]
		verifAssert(a.Key == b.Key && a.Type == b.Type, "route-order-and-kind-unchanged")
		wantRoutePrefix := ""
		var wantDests []string // prefix|addr of the destinations expected afterwards
		for j := range b.Dests {
			wantDests = append(wantDests, b.Dests[j].Matcher.Prefix+"|"+b.Dests[j].Addr)
		}
		if !rejected && ri == kc {
			switch op {
			case 0:
				wantDests = append(append([]string{}, wantDests[:idx]...), wantDests[idx+1:]...)
			case 1:
				wantDests[idx] = "new|" + b.Dests[idx].Addr
			case 2:
				wantRoutePrefix = "new"
			}
		}
		verifAssert(a.Matcher.Prefix == wantRoutePrefix, "route-filter-changed-only-by-modRoute-on-this-route")
		verifAssert(len(a.Dests) == len(wantDests), "destination-count-as-expected")
		if len(a.Dests) == len(wantDests) {
			for j := range wantDests {
				verifAssert(a.Dests[j].Matcher.Prefix+"|"+a.Dests[j].Addr == wantDests[j], "only-the-addressed-destination-changed")
			}
		}
	}
	verifCover("end")
}

// VerifC14View: the admin interface's `view` command (Table.Print) on tables that admin commands can build --
// empty; entries of every kind; a route whose destinations were all deleted; entries with empty and with long
// option texts -- returns the listing without panicking, and the listing names every route key.
func VerifC14View() {
	aggregator.InitMetrics()
	t := verifNewTable(m20.NoneLegacy, m20.NoneM20, false)
	verifAssert(len(t.Print()) > 0, "view-of-the-empty-table")
	long := "a-rather-long-option-text-that-is-wider-than-every-default-column"
	opt := []string{"", "x", long}[verifChoice("optlen", 3)]
	all, _ := matcher.New(opt, "", opt, "", "", "")
	t.AddBlacklist(&all)
	if rw, err := rewriter.New("old"+opt, opt, "", -1); err == nil {
		t.AddRewriter(rw)
	}
	am, _ := matcher.New("", "", "", "", "^a"+opt, "")
	if a, err := aggregator.NewMocked("sum", am, "o"+opt, false, 10, 20, verifBool("dropraw"), make(chan []byte, 4), 4, verifNowFixed, make(chan time.Time)); err == nil {
		t.AddAggregator(a)
	}
	nd := verifChoice("ndests", 3)
	var ds []*dest.Destination
	for j := 0; j < nd; j++ {
		d, err := dest.New("r"+opt, all, []string{"127.0.0.1:2100", "127.0.0.1:2101"}[j], "/tmp/verif-spool", false, verifBool("pickle"), 1e9, 1e9, 10, 100, 10, 1000, 10, 1e9, 1e6, 1e6)
		if err != nil {
			panic(err)
		}
		ds = append(ds, d)
	}
	var r route.Route
	var err error
	switch verifChoice("kind", 3) {
	case 0:
		r, err = route.NewSendAllMatch("r"+opt, all, ds)
	case 1:
		r, err = route.NewSendFirstMatch("r"+opt, all, ds)
	default:
		r, err = route.NewConsistentHashing("r"+opt, all, ds)
	}
	if err != nil {
		verifCover("route-refused")
		return
	}
	t.AddRoute(r)
	verifSettle()
	if nd > 0 && verifBool("delete-a-destination") {
		t.DelDestination("r"+opt, 0)
	}
	out := t.Print()
	verifAssert(strings.Contains(out, "r"+opt), "view-lists-the-route")
	verifCover("end")
}
