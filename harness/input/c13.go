//go:build verif

package input

import (
	"bufio"
	"bytes"
	"errors"
	"fmt"
	"io"
	"math"
	"math/big"
	"reflect"
	"strconv"

	ogorek "github.com/kisielk/og-rek"
)

// ---------------------------------------------------------------------------------------------
// C13: pickle input.
//
// In the engine (*ogórek.Decoder).Decode is an intrinsic that calls verifOgrekDecodeHook below: the
// decoder "returns" the structure the harness registered for exactly the bytes it was handed
// (verifPickleTable), and an error for any other bytes. Payload bytes are produced by a small
// pickle encoder in this file (verifPickleEnc), which runs identically in the engine and natively,
// so natively the real og-rek decoder sees real pickles; verifPickleRegister checks natively that
// og-rek decodes every registered payload to the registered structure (harness self-consistency).
// Agreement with CPython's encoder and the correctness of og-rek are outside the claim.
// ---------------------------------------------------------------------------------------------

type verifPickleEntry struct {
	payload []byte
	value   interface{}
	err     error
}

var verifPickleTable []verifPickleEntry
var verifDecoderCalls int
var verifErrNotAPickle = errors.New("verif: decoder was handed bytes that are not the payload of a frame")

// verifOgrekDecodeHook is called by the engine in place of (*ogórek.Decoder).Decode.
func verifOgrekDecodeHook(r *bufio.Reader) (interface{}, error) {
	verifDecoderCalls++
	var got []byte
	buf := make([]byte, 8192)
	for {
		n, err := r.Read(buf)
		got = append(got, buf[:n]...)
		if err != nil {
			break
		}
	}
	for _, e := range verifPickleTable {
		if bytes.Equal(got, e.payload) {
			return e.value, e.err
		}
	}
	// og-rek on damaged input (read off its source): nothing at all -> io.EOF, a proper prefix of a
	// pickle -> io.ErrUnexpectedEOF; anything else is some decoding error
	if len(got) == 0 {
		return nil, io.EOF
	}
	for _, e := range verifPickleTable {
		if len(got) < len(e.payload) && bytes.Equal(got, e.payload[:len(got)]) {
			return nil, io.ErrUnexpectedEOF
		}
	}
	return nil, verifErrNotAPickle
}

func verifPickleRegister(payload []byte, value interface{}, err error) {
	verifPickleTable = append(verifPickleTable, verifPickleEntry{payload, value, err})
	if !verifIsSymbolic() {
		// native self-consistency: the real decoder maps the payload to the registered structure
		got, gerr := ogorek.NewDecoder(bytes.NewReader(payload)).Decode()
		if err != nil {
			if gerr != err {
				panic(fmt.Sprintf("verif harness bug: og-rek error %v on %q, registered %v", gerr, payload, err))
			}
			return
		}
		if gerr != nil || !reflect.DeepEqual(got, value) {
			panic(fmt.Sprintf("verif harness bug: og-rek decodes %q to %#v (%v), registered %#v", payload, got, gerr, value))
		}
	}
}

// ---- mini pickle encoder for the Go types og-rek produces

func verifPickleEnc(out []byte, v interface{}) []byte {
	switch x := v.(type) {
	case ogorek.None:
		return append(out, 'N')
	case bool:
		if x {
			return append(out, 0x88)
		}
		return append(out, 0x89)
	case int64:
		switch {
		case x >= 0 && x < 256:
			return append(out, 'K', byte(x))
		case x >= 0 && x < 65536:
			return append(out, 'M', byte(x), byte(x>>8))
		case x >= 0 && x < 1<<31:
			return append(out, 'J', byte(x), byte(x>>8), byte(x>>16), byte(x>>24))
		}
		out = append(out, 'I')
		out = append(out, strconv.FormatInt(x, 10)...)
		return append(out, '\n')
	case float64:
		u := math.Float64bits(x)
		return append(out, 'G', byte(u>>56), byte(u>>48), byte(u>>40), byte(u>>32), byte(u>>24), byte(u>>16), byte(u>>8), byte(u))
	case string:
		if len(x) < 256 {
			out = append(out, 'U', byte(len(x)))
		} else {
			out = append(out, 'T', byte(len(x)), byte(len(x)>>8), byte(len(x)>>16), byte(len(x)>>24))
		}
		return append(out, x...)
	case *big.Int: // positive only: LONG1, little-endian two's complement
		var raw []byte
		for _, w := range x.Bits() {
			for i := 0; i < 8; i++ {
				raw = append(raw, byte(uint64(w)>>(8*uint(i))))
			}
		}
		for len(raw) > 1 && raw[len(raw)-1] == 0 && raw[len(raw)-2] < 0x80 {
			raw = raw[:len(raw)-1]
		}
		if raw[len(raw)-1] >= 0x80 {
			raw = append(raw, 0)
		}
		out = append(out, 0x8a, byte(len(raw)))
		return append(out, raw...)
	case ogorek.Tuple:
		out = append(out, '(')
		for _, e := range x {
			out = verifPickleEnc(out, e)
		}
		return append(out, 't')
	case []interface{}:
		out = append(out, ']', '(')
		for _, e := range x {
			out = verifPickleEnc(out, e)
		}
		return append(out, 'e')
	case map[interface{}]interface{}:
		return append(out, '}')
	}
	panic(fmt.Sprintf("verifPickleEnc: unsupported %T", v))
}

// verifPickleList encodes a top-level list in one of the four layouts checkProtocol distinguishes.
func verifPickleList(items []interface{}, style int) []byte {
	var out []byte
	switch style {
	case 1: // protocol 0: MARK LIST, then item APPEND ...
		out = append(out, '(', 'l')
		for _, e := range items {
			out = append(verifPickleEnc(out, e), 'a')
		}
		return append(out, '.')
	case 2: // protocol 2/3: PROTO 2 EMPTY_LIST ...
		out = append(out, 0x80, 2)
	case 3: // protocol 4 layout: PROTO <v> FRAME <8 bytes> ... (og-rek of this vintage only takes version byte 2)
		out = append(out, 0x80, 2, 0x95, 0, 0, 0, 0, 0, 0, 0, 0)
	}
	out = verifPickleEnc(out, items)
	return append(out, '.')
}

func verifFrame(hdr uint32, payload []byte) []byte {
	f := []byte{byte(hdr >> 24), byte(hdr >> 16), byte(hdr >> 8), byte(hdr)}
	return append(f, payload...)
}

// verifPick: structural choice; the native self-test enumerates instead of reading a model.
var verifPickOverride func(n int) int

func verifPick(name string, n int) int {
	if verifPickOverride != nil {
		return verifPickOverride(n)
	}
	return verifChoice(name, n)
}

func verifSymStr(tag string, n int) string {
	if verifPickOverride != nil {
		return "xyz"[:n]
	}
	return verifString(tag, n)
}

// ---- scalars and their expected text

type verifScalar struct {
	v     interface{}
	val   string // text when used as value
	valOK bool
	ts    string // text when used as timestamp
	tsOK  bool
}

func verifBigInt() *big.Int { return new(big.Int).SetBits([]big.Word{1, 1}) } // 2^64+1

var verifIntTable = []struct {
	v int64
	s string
}{{42, "42"}, {0, "0"}, {255, "255"}, {256, "256"}, {70000, "70000"}, {1500000000, "1500000000"}, {2147483648, "2147483648"}, {1099511627776, "1099511627776"}, {-5, "-5"}, {-9223372036854775808, "-9223372036854775808"}}

var verifFloatTable = []struct {
	v       float64
	val, ts string
}{{1.5, "1.500000", "2"}, {0.25, "0.250000", "0"}, {2.5, "2.500000", "2"}, {1234567890.0, "1234567890.000000", "1234567890"},
	{-2.5, "-2.500000", "-2"}, {0.0000004, "0.000000", "0"}, {1e21, "1000000000000000000000.000000", "1000000000000000000000"},
	{1234567890.123, "1234567890.123000", "1234567890"}, {math.Inf(1), "+Inf", "+Inf"}}

// verifGenScalar: kind 0 string, 1 int64, 2 float64, 3 long, 4.. types that are no numbers/strings.
// full=false takes one representative number per type.
func verifGenScalar(tag string, kind int, full bool) verifScalar {
	switch kind {
	case 0:
		s := verifSymStr(tag+".str", verifPick(tag+".strlen", 2))
		return verifScalar{s, s, true, s, true}
	case 1:
		i := 0
		if full {
			i = verifPick(tag+".int", len(verifIntTable))
		}
		e := verifIntTable[i]
		return verifScalar{e.v, e.s, true, e.s, true}
	case 2:
		i := 0
		if full {
			i = verifPick(tag+".float", len(verifFloatTable))
		}
		e := verifFloatTable[i]
		return verifScalar{e.v, e.val, true, e.ts, true}
	case 3:
		// a Python long / any Python 3 int >= 2^31: formatted with %d (as a value only generated by VerifC13LongValue)
		return verifScalar{verifBigInt(), "18446744073709551617", true, "18446744073709551617", true}
	case 4:
		return verifScalar{v: ogorek.None{}}
	case 5:
		return verifScalar{v: true}
	case 6:
		return verifScalar{v: ogorek.Tuple{}}
	case 7:
		return verifScalar{v: []interface{}{}}
	}
	return verifScalar{v: map[interface{}]interface{}{}}
}

const verifScalarKinds = 9

func verifSeq(tuple bool, elems ...interface{}) interface{} {
	if elems == nil {
		elems = []interface{}{}
	}
	if tuple {
		return ogorek.Tuple(elems)
	}
	return elems
}

// verifGenItem builds one list item; valid => line is the text it must be dispatched as.
func verifGenItem(tag string, full bool) (item interface{}, valid bool, line string) {
	class := verifPick(tag+".class", 7)
	switch class {
	case 0: // (name, (ts, val)): every pair of scalar types as tuples, every tuple/list combination for one pair
		name := verifSymStr(tag+".name", 1+verifPick(tag+".namelen", 2))
		var ts, val verifScalar
		outerTuple, innerTuple := true, true
		if verifPick(tag+".vary", 2) == 0 {
			ts = verifGenScalar(tag+".ts", verifPick(tag+".tskind", verifScalarKinds), full)
			vk := verifPick(tag+".valkind", verifScalarKinds-1) // a long as value is VerifC13LongValue's case
			if vk >= 3 {
				vk++
			}
			val = verifGenScalar(tag+".val", vk, full)
		} else {
			ts = verifGenScalar(tag+".ts", 1, false)
			val = verifGenScalar(tag+".val", 2, false)
			outerTuple = verifPick(tag+".outer", 2) == 0
			innerTuple = verifPick(tag+".inner", 2) == 0
		}
		item = verifSeq(outerTuple, name, verifSeq(innerTuple, ts.v, val.v))
		if ts.tsOK && val.valOK {
			return item, true, name + " " + val.val + " " + ts.ts
		}
		return item, false, ""
	case 1: // item is no sequence
		k := verifPick(tag+".itkind", 7)
		if k == 6 {
			k = 8
		}
		return verifGenScalar(tag+".it", k, false).v, false, ""
	case 2: // item length != 2
		t := verifPick(tag+".outer", 2) == 0
		switch verifPick(tag+".len", 3) {
		case 0:
			return verifSeq(t), false, ""
		case 1:
			return verifSeq(t, "a"), false, ""
		}
		return verifSeq(t, "a", ogorek.Tuple{int64(1), int64(2)}, int64(3)), false, ""
	case 3: // name is no string
		k := 1 + verifPick(tag+".namekind", verifScalarKinds-1)
		return ogorek.Tuple{verifGenScalar(tag+".nm", k, false).v, ogorek.Tuple{int64(1), int64(2)}}, false, ""
	case 4: // data is no sequence
		k := verifPick(tag+".datakind", 5)
		if k == 4 {
			k = 8
		}
		return ogorek.Tuple{"a", verifGenScalar(tag+".dt", k, false).v}, false, ""
	case 5: // data length != 2
		t := verifPick(tag+".inner", 2) == 0
		switch verifPick(tag+".len", 3) {
		case 0:
			return ogorek.Tuple{"a", verifSeq(t)}, false, ""
		case 1:
			return ogorek.Tuple{"a", verifSeq(t, int64(1))}, false, ""
		}
		return ogorek.Tuple{"a", verifSeq(t, int64(1), int64(2), int64(3))}, false, ""
	}
	// 6: depth 3: data elements are themselves sequences
	return ogorek.Tuple{"a", ogorek.Tuple{ogorek.Tuple{int64(1), int64(2)}, []interface{}{int64(1)}}}, false, ""
}

// verifGenNeighbour: a small set of items placed around the item under test.
func verifGenNeighbour(tag string) (item interface{}, valid bool, line string) {
	switch verifPick(tag+".neighbour", 4) {
	case 0:
		name := verifSymStr(tag+".name", 1)
		return ogorek.Tuple{name, ogorek.Tuple{int64(1), int64(2)}}, true, name + " 2 1"
	case 1:
		return int64(5), false, ""
	case 2:
		return ogorek.Tuple{"a"}, false, ""
	}
	return []interface{}{"a", []interface{}{int64(1), ogorek.None{}}}, false, ""
}

func verifRunPickle(stream io.Reader, d *verifCapDisp) error {
	return NewPickle(d).Handle(stream)
}

func verifLinesEqual(got [][]byte, want []string) bool {
	if len(got) != len(want) {
		return false
	}
	ok := true
	for i := range want {
		if string(got[i]) != want[i] {
			ok = false
		}
	}
	return ok
}

func verifItemsBody(maxItems int, full bool) {
	n := 1 + verifPick("items", maxItems)
	focus := verifPick("focus", n)
	var items []interface{}
	var wantEvents []byte
	var wantLines []string
	for i := 0; i < n; i++ {
		var it interface{}
		var valid bool
		var line string
		if i == focus {
			it, valid, line = verifGenItem("item", full)
		} else {
			it, valid, line = verifGenNeighbour(fmt.Sprintf("nb%d", i))
		}
		items = append(items, it)
		if valid {
			wantEvents = append(wantEvents, 'D')
			wantLines = append(wantLines, line)
		} else {
			wantEvents = append(wantEvents, 'I')
		}
	}
	payload := verifPickleList(items, verifPick("style", 4))
	verifPickleRegister(payload, items, nil)
	d := &verifCapDisp{}
	err := verifRunPickle(bytes.NewReader(verifFrame(uint32(len(payload)), payload)), d)
	verifAssert(err == nil, "frame-of-items-is-no-connection-error")
	verifAssert(bytes.Equal(d.events, wantEvents), "one-dispatch-per-valid-item-one-invalid-count-per-other-item-in-order")
	verifAssert(verifLinesEqual(d.copies, wantLines), "valid-items-dispatched-as-name-value-timestamp")
}

// VerifC13Items: structural obligation. A frame with 1..N items, one of them ranging over all item
// shapes (depth <= 3), the others over a small neighbour set: every structurally valid item is
// dispatched as "name value ts", every other shape counts invalid exactly once and dispatches
// nothing, neighbours unaffected, no shape panics.
func VerifC13Items() {
	verifItemsBody(verifDigit("items", 2), false)
	verifCover("end")
}

// VerifC13Format: formatting obligation with concrete numbers: one valid item, timestamp and value
// over the full tables (ints via %d, floats %f as value and %.0f as timestamp, strings verbatim).
func VerifC13Format() {
	name := verifSymStr("name", verifPick("namelen", 3))
	ts := verifGenScalar("ts", verifPick("tskind", 4), true)
	val := verifGenScalar("val", verifPick("valkind", 3), true)
	items := []interface{}{ogorek.Tuple{name, ogorek.Tuple{ts.v, val.v}}}
	payload := verifPickleList(items, 0)
	verifPickleRegister(payload, items, nil)
	d := &verifCapDisp{}
	err := verifRunPickle(bytes.NewReader(verifFrame(uint32(len(payload)), payload)), d)
	verifAssert(err == nil, "frame-of-items-is-no-connection-error")
	verifAssert(verifLinesEqual(d.copies, []string{name + " " + val.val + " " + ts.ts}), "valid-items-dispatched-as-name-value-timestamp")
	verifAssert(d.invalid == 0, "valid-item-not-counted-invalid")
	verifCover("end")
}

// VerifC13LongValue: a Python long as the *value* (what CPython 3 emits for any int >= 2^31 in every
// protocol, og-rek type *big.Int). The property lists long values among the valid datapoints.
func VerifC13LongValue() {
	name := verifSymStr("name", 1)
	var value interface{} = verifBigInt()
	want := "18446744073709551617"
	if verifChoice("control", 2) == 1 { // control: the same item with an int64 value
		value, want = int64(2147483647), "2147483647"
	}
	items := []interface{}{ogorek.Tuple{name, ogorek.Tuple{int64(1500000000), value}}}
	payload := verifPickleList(items, 2)
	verifPickleRegister(payload, items, nil)
	d := &verifCapDisp{}
	err := verifRunPickle(bytes.NewReader(verifFrame(uint32(len(payload)), payload)), d)
	verifAssert(err == nil, "frame-of-items-is-no-connection-error")
	verifAssert(d.invalid == 0, "long-value-not-counted-invalid")
	verifAssert(verifLinesEqual(d.copies, []string{name + " " + want + " 1500000000"}), "long-value-dispatched-via-%d")
	verifCover("end")
}

// VerifC13TopLevel: a payload that passes the prefix check but decodes to something that is not a
// list ends the connection with an error and dispatches / counts nothing.
func VerifC13TopLevel() {
	var v interface{}
	switch verifPick("top", 5) {
	case 0:
		v = ogorek.Tuple{ogorek.Tuple{"a", ogorek.Tuple{int64(1), int64(2)}}}
	case 1:
		v = ogorek.None{}
	case 2:
		v = verifSymStr("s", 1)
	case 3:
		v = map[interface{}]interface{}{}
	case 4:
		v = int64(7)
	}
	payload := append(verifPickleEnc([]byte{']', '0'}, v), '.') // EMPTY_LIST POP <v> STOP
	verifPickleRegister(payload, v, nil)
	d := &verifCapDisp{}
	err := verifRunPickle(bytes.NewReader(verifFrame(uint32(len(payload)), payload)), d)
	verifAssert(err != nil, "non-list-payload-is-a-connection-error")
	verifAssert(len(d.events) == 0, "nothing-dispatched-or-counted-from-non-list-payload")
	verifCover("end")
}

// ---- framing

func verifPrefixAccepted(t []byte) bool {
	if len(t) >= 1 && t[0] == ']' {
		return true
	}
	if len(t) >= 2 && t[0] == '(' && t[1] == 'l' {
		return true
	}
	if len(t) >= 3 && t[0] == 0x80 && (t[2] == ']' || t[2] == 0x95) {
		return true
	}
	return false
}

const verifMaxPickle = 500 * 1024 * 1024

// verifKindFrom chooses one of the digits of set (default def).
func verifKindFrom(set, def, name string) int {
	if set == "" {
		set = def
	}
	return int(set[verifChoice(name, len(set))] - '0')
}

// VerifC13Framing: 1..2 frames per connection through the segmenting reader. Good frames carry a
// symbolic 4-byte length (constrained to the payload length); the last frame may be malformed:
// over-long length, bad protocol prefix (any length), short payload, truncated length, empty frame.
func VerifC13Framing() {
	nf := 1 + verifChoice("frames", verifDigit("frames", 2))
	var stream []byte
	var wantEvents []byte
	var wantLines []string
	wantErr := false
	for i := 0; i < nf; i++ {
		kind := 0
		if i == nf-1 {
			kind = verifKindFrom(verifParam("last"), "01234567", "last-kind")
		} else {
			kind = verifKindFrom(verifParam("first"), "01", "kind")
		}
		switch kind {
		case 0, 5: // i+1 integer items with symbolic content: i+1 invalid counts; kind 5: short payload
			var items []interface{}
			for j := 0; j <= i; j++ {
				items = append(items, int64(verifByte("int")))
			}
			payload := verifPickleList(items, 0)
			hdr := verifUint32("hdr")
			if kind == 0 {
				verifAssume(hdr == uint32(len(payload)))
				verifPickleRegister(payload, items, nil)
				for j := 0; j <= i; j++ {
					wantEvents = append(wantEvents, 'I')
				}
			} else {
				verifAssume(hdr > uint32(len(payload)) && hdr <= uint32(len(payload))+2)
				wantErr = true
			}
			stream = append(stream, verifFrame(hdr, payload)...)
		case 1: // one valid item with a symbolic name, in any of the accepted layouts
			name := verifString("name", 1)
			items := []interface{}{ogorek.Tuple{name, ogorek.Tuple{int64(1), int64(2)}}}
			style := 0
			if i == nf-1 {
				style = verifKindFrom(verifParam("styles"), "0123", "style")
			} else {
				style = verifKindFrom(verifParam("first-styles"), "0123", "style")
			}
			payload := verifPickleList(items, style)
			verifPickleRegister(payload, items, nil)
			hdr := verifUint32("hdr")
			verifAssume(hdr == uint32(len(payload)))
			stream = append(stream, verifFrame(hdr, payload)...)
			wantEvents = append(wantEvents, 'D')
			wantLines = append(wantLines, name+" 2 1")
		case 2: // over-long length, anything behind it
			hdr := verifUint32("hdr")
			verifAssume(hdr > verifMaxPickle)
			stream = append(stream, verifFrame(hdr, verifBytes("tail", verifChoice("tail", 4)))...)
			wantErr = true
		case 3: // bad protocol prefix, any admissible length (including 0)
			hdr := verifUint32("hdr")
			verifAssume(hdr <= verifMaxPickle)
			tail := verifBytes("tail", verifChoice("tail", 4))
			verifAssume(!verifPrefixAccepted(tail))
			stream = append(stream, verifFrame(hdr, tail)...)
			wantErr = true
		case 4: // truncated length field
			stream = append(stream, verifBytes("hdrpart", 1+verifChoice("hdrlen", 3))...)
			wantErr = true
		case 6: // empty frame followed by a byte that passes the prefix check: the decoder gets no bytes (og-rek: io.EOF)
			stream = append(stream, 0, 0, 0, 0, ']')
			wantErr = true
		case 7: // a well-formed list pickle in a layout checkProtocol does not accept (MARK items LIST STOP)
			items := []interface{}{int64(verifByte("int"))}
			payload := append(verifPickleEnc([]byte{'('}, items[0]), 'l', '.')
			verifPickleRegister(payload, items, nil)
			stream = append(stream, verifFrame(uint32(len(payload)), payload)...)
			wantErr = true
		}
	}
	var r io.Reader
	var endErr error = io.EOF
	if verifParam("reader") == "seg" {
		endErr = verifEndErr()
		r = &verifSegReader{data: stream, zerosLeft: verifDigit("zeros", 0), endErr: endErr}
	} else {
		n := len(stream)
		var cuts []int
		switch verifParam("reader") {
		case "bytewise": // every Read returns one byte
			for i := 1; i < n; i++ {
				cuts = append(cuts, i)
			}
		case "cut1":
			cuts = []int{verifChoice("cut1", n+1)}
		default:
			c1 := verifChoice("cut1", n+1)
			cuts = []int{c1, c1 + verifChoice("cut2", n+1-c1)}
		}
		r = &verifCutReader{data: stream, cuts: cuts, endErr: endErr, errWithEnd: verifChoice("err-with-last-bytes", 2) == 1}
	}
	d := &verifCapDisp{}
	mark := verifTraceMark()
	err := verifRunPickle(r, d)
	if verifIsSymbolic() {
		// frames are independent pickles: each one is decoded by a decoder of its own (a decoder keeps its memo
		// between Decode calls, so a shared one lets a later frame resolve back-references into an earlier frame)
		verifAssert(verifCalledSince(mark, "og-rek.NewDecoder") == verifCalledSince(mark, "og-rek.Decoder).Decode"), "structural/every-frame-decoded-by-a-fresh-decoder")
	}
	verifAssert(bytes.Equal(d.events, wantEvents), "items-of-good-frames-processed-in-order-nothing-from-bad-frame")
	verifAssert(verifLinesEqual(d.copies, wantLines), "valid-items-dispatched-as-name-value-timestamp")
	if wantErr || endErr != io.EOF {
		verifAssert(err != nil, "malformed-frame-or-read-error-ends-connection-with-error")
	} else {
		verifAssert(err == nil, "clean-end-of-stream-is-no-error")
	}
	verifCover("end")
}

// VerifC13TruncatedPickle: a frame whose length field cuts the pickle short by one byte (og-rek reports
// io.ErrUnexpectedEOF for a truncated pickle; modelled so). The property demands that a malformed
// frame ends the connection with an error and dispatches nothing.
func VerifC13TruncatedPickle() {
	name := verifString("name", 1)
	items := []interface{}{ogorek.Tuple{name, ogorek.Tuple{int64(1), int64(2)}}}
	payload := verifPickleList(items, 0)
	d := &verifCapDisp{}
	if verifChoice("control", 2) == 1 { // control: the same frame with the right length
		verifPickleRegister(payload, items, nil)
		err := verifRunPickle(bytes.NewReader(verifFrame(uint32(len(payload)), payload)), d)
		verifAssert(verifLinesEqual(d.copies, []string{name + " 2 1"}), "valid-items-dispatched-as-name-value-timestamp")
		verifAssert(err == nil, "clean-end-of-stream-is-no-error")
		verifCover("end")
		return
	}
	verifPickleRegister(payload[:len(payload)-1], nil, io.ErrUnexpectedEOF)
	err := verifRunPickle(bytes.NewReader(verifFrame(uint32(len(payload)-1), payload)), d)
	verifAssert(len(d.events) == 0, "nothing-dispatched-or-counted-from-truncated-pickle")
	verifAssert(err != nil, "truncated-pickle-ends-connection-with-error")
	verifCover("end")
}

// VerifC13Chunked: a frame larger than the 4096-byte read chunk (concrete length, name of 4200 bytes
// with symbolic first/last byte) is reassembled and handed to the decoder whole.
func VerifC13Chunked() {
	nm := bytes.Repeat([]byte{'a'}, 4200)
	nm[0] = verifByte("first")
	nm[len(nm)-1] = verifByte("last")
	name := string(nm)
	items := []interface{}{ogorek.Tuple{name, ogorek.Tuple{int64(1), int64(2)}}}
	payload := verifPickleList(items, 2)
	verifPickleRegister(payload, items, nil)
	stream := verifFrame(uint32(len(payload)), payload)
	stream = append(stream, stream...) // two such frames
	cutset := []int{0, 1, 3, 4, 5, 4095, 4096, 4097, 4100, 4101, len(stream)/2 - 1, len(stream) / 2, len(stream)/2 + 4, 8192}
	c1 := cutset[verifChoice("cut1", len(cutset))]
	c2 := cutset[verifChoice("cut2", len(cutset))]
	r := &verifCutReader{data: stream, cuts: []int{c1, c2}, endErr: io.EOF}
	d := &verifCapDisp{}
	err := verifRunPickle(r, d)
	verifAssert(verifLinesEqual(d.copies, []string{name + " 2 1", name + " 2 1"}), "valid-items-dispatched-as-name-value-timestamp")
	verifAssert(err == nil, "clean-end-of-stream-is-no-error")
	verifCover("end")
}

// VerifC13SelfTest (native only): enumerates every structural choice of the item generator and lets
// verifPickleRegister confirm that the real og-rek decodes each generated pickle to the intended
// structure, and runs the real handler on it.
func VerifC13SelfTest() {
	if verifIsSymbolic() {
		verifAssert(true, "native-only")
		verifCover("end")
		return
	}
	var digits, radix []int
	pos := 0
	verifPickOverride = func(n int) int {
		if pos == len(digits) {
			digits = append(digits, 0)
			radix = append(radix, n)
		}
		radix[pos] = n
		v := digits[pos]
		pos++
		return v
	}
	runs := 0
	for {
		pos = 0
		verifPickleTable = nil
		func() {
			defer func() {
				if p := recover(); p != nil {
					verifAssert(false, fmt.Sprintf("selftest: %v", p))
				}
			}()
			before := len(verifFailures)
			verifItemsBody(2, true)
			if len(verifFailures) > before {
				fmt.Printf("VERIF-SELFTEST failing choices %v\n", digits[:pos])
			}
		}()
		runs++
		// odometer increment over the choices made in this run
		digits, radix = digits[:pos], radix[:pos]
		i := pos - 1
		for i >= 0 {
			digits[i]++
			if digits[i] < radix[i] {
				break
			}
			i--
		}
		if i < 0 {
			break
		}
		digits, radix = digits[:i+1], radix[:i+1]
	}
	fmt.Printf("VERIF-SELFTEST runs=%d\n", runs)
	verifPickOverride = nil
}

// verifConnReader: a connection whose segments are handed over by the harness one at a time; Read blocks
// until the next segment arrives, a closed channel is the peer's clean end of stream.
type verifConnReader struct {
	ch  chan []byte
	cur []byte
}

func (r *verifConnReader) Read(p []byte) (int, error) {
	for len(r.cur) == 0 {
		seg, ok := <-r.ch
		if !ok {
			return 0, io.EOF
		}
		r.cur = seg
	}
	k := copy(p, r.cur)
	r.cur = r.cur[k:]
	return k, nil
}

// VerifC13TwoConnections: one listener has ONE Pickle handler, and every accepted connection runs
// Handle on it in its own goroutine (input/listener.go). Connection A's frame arrives in two segments
// (cut anywhere: inside the length, right after it, inside the payload, one byte before its end); a whole
// frame of connection B arrives in between, on the same handler. Both frames must be processed as
// their own datapoints, and neither connection may end with an error.
func VerifC13TwoConnections() {
	nameA, nameB := verifString("nameA", 1), verifString("nameB", 1)
	itemsA := []interface{}{ogorek.Tuple{nameA, ogorek.Tuple{int64(1), int64(2)}}}
	itemsB := []interface{}{ogorek.Tuple{nameB, ogorek.Tuple{int64(3), int64(4)}}, ogorek.Tuple{nameB, ogorek.Tuple{int64(5), int64(6)}}}
	style := verifPick("style", 4)
	payA, payB := verifPickleList(itemsA, style), verifPickleList(itemsB, style)
	verifPickleRegister(payA, itemsA, nil)
	verifPickleRegister(payB, itemsB, nil)
	streamA, streamB := verifFrame(uint32(len(payA)), payA), verifFrame(uint32(len(payB)), payB)
	cutset := []int{1, 4, 5, 6, len(streamA) / 2, len(streamA) - 1}
	cut := cutset[verifChoice("cut", len(cutset))]

	d := &verifCapDisp{}
	p := NewPickle(d)
	ra, rb := &verifConnReader{ch: make(chan []byte)}, &verifConnReader{ch: make(chan []byte)}
	var errA, errB error
	doneA, doneB := make(chan bool, 1), make(chan bool, 1)
	go func() { errA = p.Handle(ra); doneA <- true }()
	go func() { errB = p.Handle(rb); doneB <- true }()
	verifSettle()
	ra.ch <- streamA[:cut]
	verifSettle()
	rb.ch <- streamB
	verifSettle()
	verifAssert(verifLinesEqual(d.copies, []string{nameB + " 4 3", nameB + " 6 5"}), "complete-frame-of-other-connection-processed-while-this-one-waits")
	ra.ch <- streamA[cut:]
	verifSettle()
	close(ra.ch)
	close(rb.ch)
	<-doneA
	<-doneB
	verifAssert(verifLinesEqual(d.copies, []string{nameB + " 4 3", nameB + " 6 5", nameA + " 2 1"}), "valid-items-dispatched-as-name-value-timestamp")
	verifAssert(errA == nil && errB == nil, "clean-end-of-stream-is-no-error")
	verifCover("end")
}
