//go:build verif

package input

import (
	"bytes"
	"errors"
	"io"
	"net"
	"time"

	"github.com/streadway/amqp"
)

// ---------------------------------------------------------------------------------------------
// C12: input framing is independent of how the network chops the stream.
//
// The io.Reader handed to the handlers is a nondeterministic stub: every Read returns a
// solver-chosen number of bytes 0..min(len(p), remaining), may return the last bytes together
// with the terminating error, and may return (0, nil) a bounded number of times. The terminating
// error is io.EOF or a timeout error. The oracle is a function of the delivered bytes only.
// ---------------------------------------------------------------------------------------------

type verifTimeoutErr struct{}

func (verifTimeoutErr) Error() string   { return "verif: i/o timeout" }
func (verifTimeoutErr) Timeout() bool   { return true }
func (verifTimeoutErr) Temporary() bool { return true }

var verifErrTimeout error = verifTimeoutErr{}
var verifErrDeadline = errors.New("verif: SetReadDeadline failed")

// verifSegReader: the io.Reader contract as a nondeterministic stub over a fixed byte stream.
type verifSegReader struct {
	data      []byte
	pos       int   // bytes handed out so far
	zerosLeft int   // budget of (0, nil) reads
	endErr    error // error that terminates the stream (io.EOF, timeout)
	ended     bool
	reads     int
	afterEnd  int // Read calls after the terminating error was returned
}

func (r *verifSegReader) Read(p []byte) (int, error) {
	r.reads++
	if r.ended {
		r.afterEnd++
		return 0, r.endErr
	}
	rem := len(r.data) - r.pos
	if rem == 0 {
		if r.zerosLeft > 0 && verifBool("zero-read-at-end") {
			r.zerosLeft--
			return 0, nil
		}
		r.ended = true
		return 0, r.endErr
	}
	hi := rem
	if len(p) < hi {
		hi = len(p)
	}
	lo := 1
	if r.zerosLeft > 0 || hi == 0 {
		lo = 0
	}
	k := verifInt("n", lo, hi)
	k = verifConcretize(k)
	if k == 0 {
		if hi > 0 {
			r.zerosLeft--
		}
		return 0, nil
	}
	copy(p, r.data[r.pos:r.pos+k])
	r.pos += k
	if r.pos == len(r.data) && verifBool("err-with-last-bytes") {
		r.ended = true
		return k, r.endErr
	}
	return k, nil
}

// verifCutReader: cheaper segmentation model for longer streams: the stream is delivered in at most
// len(cuts)+1 segments, cut at the given (solver-chosen, concrete) positions.
type verifCutReader struct {
	data       []byte
	pos        int
	cuts       []int
	endErr     error
	errWithEnd bool
	ended      bool
}

func (r *verifCutReader) Read(p []byte) (int, error) {
	if r.ended {
		return 0, r.endErr
	}
	if r.pos == len(r.data) {
		r.ended = true
		return 0, r.endErr
	}
	end := len(r.data)
	for _, c := range r.cuts {
		if c > r.pos && c < end {
			end = c
		}
	}
	if end-r.pos > len(p) {
		end = r.pos + len(p)
	}
	k := copy(p, r.data[r.pos:end])
	r.pos += k
	if r.pos == len(r.data) && r.errWithEnd {
		r.ended = true
		return k, r.endErr
	}
	return k, nil
}

// verifCapDisp: capture dispatcher. Copies its argument at call time and also keeps the slice itself.
type verifCapDisp struct {
	copies  [][]byte
	kept    [][]byte
	invalid int
	// events: 'D' per Dispatch, 'I' per IncNumInvalid, in call order
	events []byte
}

func (d *verifCapDisp) Dispatch(buf []byte) {
	d.copies = append(d.copies, append([]byte{}, buf...))
	d.kept = append(d.kept, buf)
	d.events = append(d.events, 'D')
}
func (d *verifCapDisp) IncNumInvalid() { d.invalid++; d.events = append(d.events, 'I') }

// verifLines is the oracle: the newline-delimited lines of s. Returns the raw lines (without the
// '\n', trailing '\r' still present) and whether the last one is a final unterminated line.
func verifLines(s []byte) (lines [][]byte, finalUnterminated bool) {
	start := 0
	for i := 0; i < len(s); i++ {
		if s[i] == '\n' {
			lines = append(lines, s[start:i])
			start = i + 1
		}
	}
	if start < len(s) {
		lines = append(lines, s[start:])
		finalUnterminated = true
	}
	return
}

func verifDropCR(l []byte) []byte {
	if len(l) > 0 && l[len(l)-1] == '\r' {
		return l[:len(l)-1]
	}
	return l
}

// verifCheckLines asserts got == lines(stream): same count, same order, same bytes, one trailing
// '\r' removed. Tolerance (DESIGN.md C12): on a final unterminated line the trailing '\r' may be kept.
func verifCheckLines(stream []byte, got [][]byte) {
	want, finalUnterminated := verifLines(stream)
	verifAssert(len(got) == len(want), "dispatch-count-equals-line-count")
	if len(got) != len(want) {
		return
	}
	ok := true
	for i := range want {
		if bytes.Equal(got[i], verifDropCR(want[i])) {
			continue
		}
		if finalUnterminated && i == len(want)-1 && bytes.Equal(got[i], want[i]) {
			continue
		}
		ok = false
	}
	verifAssert(ok, "dispatched-lines-equal-stream-lines-in-order")
}

// verifKeptIntact: the slices handed to Dispatch still hold the bytes they held at call time.
func verifKeptIntact(d *verifCapDisp) bool {
	ok := true
	for i := range d.kept {
		if !bytes.Equal(d.kept[i], d.copies[i]) {
			ok = false
		}
	}
	return ok
}

func verifDigit(name string, def int) int {
	s := verifParam(name)
	if len(s) == 0 {
		return def
	}
	n := 0
	for i := 0; i < len(s); i++ {
		n = n*10 + int(s[i]-'0')
	}
	return n
}

func verifEndErr() error {
	if verifChoice("end-error", 2) == 1 {
		return verifErrTimeout
	}
	return io.EOF
}

// VerifC12Plain: Plain.Handle (real bufio.Scanner) over every segmentation of every stream of 0..L bytes.
func VerifC12Plain() {
	maxL := verifDigit("L", 4)
	zeros := verifDigit("zeros", 1)
	L := verifChoice("L", maxL+1)
	stream := verifBytes("s", L)
	r := &verifSegReader{data: stream, zerosLeft: zeros, endErr: verifEndErr()}
	d := &verifCapDisp{}
	h := NewPlain(d)
	err := h.Handle(r)
	verifAssert(r.pos == L, "handler-reads-stream-to-its-end")
	verifCheckLines(stream[:r.pos], d.copies)
	verifAssert(verifKeptIntact(d), "dispatched-slices-not-overwritten-before-handler-returns")
	if r.endErr == io.EOF {
		verifAssert(err == nil, "eof-is-not-an-error")
	} else {
		verifAssert(err == r.endErr, "read-error-is-returned")
	}
	verifAssert(r.afterEnd == 0, "no-read-after-terminating-error")
	verifAssert(d.invalid == 0, "no-invalid-count-for-plain")
	verifCover("end")
}

// verifStubConn: minimal net.Conn around the segmenting reader, recording deadline calls.
type verifStubConn struct {
	r            *verifSegReader
	deadlines    int
	deadlineFail bool // SetReadDeadline may fail (solver-chosen)
	failed       bool
	closed       int
	badOrder     bool // a Read that was not preceded by its own SetReadDeadline
}

func (c *verifStubConn) Read(p []byte) (int, error) {
	if c.deadlines != c.r.reads+1 {
		c.badOrder = true
	}
	return c.r.Read(p)
}
func (c *verifStubConn) Write(p []byte) (int, error) { return len(p), nil }
func (c *verifStubConn) Close() error                { c.closed++; return nil }
func (c *verifStubConn) LocalAddr() net.Addr         { return nil }
func (c *verifStubConn) RemoteAddr() net.Addr        { return nil }
func (c *verifStubConn) SetDeadline(t time.Time) error {
	return nil
}
func (c *verifStubConn) SetReadDeadline(t time.Time) error {
	c.deadlines++
	if c.deadlineFail && verifBool("deadline-fails") {
		c.failed = true
		return verifErrDeadline
	}
	return nil
}
func (c *verifStubConn) SetWriteDeadline(t time.Time) error { return nil }

// VerifC12Conn: the TCP path the way acceptTcpConn drives it: HandleConn(l, NewTimeoutConn(c, readTimeout))
// with a stub net.Conn. With a read timeout every Read is preceded by SetReadDeadline; a failing
// SetReadDeadline ends the stream at that point (the lines of the bytes delivered so far are processed).
func VerifC12Conn() {
	maxL := verifDigit("L", 3)
	L := verifChoice("L", maxL+1)
	stream := verifBytes("s", L)
	r := &verifSegReader{data: stream, zerosLeft: verifDigit("zeros", 0), endErr: verifEndErr()}
	withTimeout := verifChoice("read-timeout", 2) == 1
	c := &verifStubConn{r: r, deadlineFail: withTimeout}
	var to time.Duration
	if withTimeout {
		to = 2 * time.Minute
	}
	d := &verifCapDisp{}
	l := NewListener("verif:2003", to, NewPlain(d))
	verifStepLimit(200000)
	l.HandleConn(l, NewTimeoutConn(c, l.readTimeout))
	verifAssert(r.afterEnd == 0, "no-read-after-terminating-error")
	if !c.failed {
		verifAssert(r.pos == L, "handler-reads-stream-to-its-end")
	}
	verifCheckLines(stream[:r.pos], d.copies)
	verifAssert(verifKeptIntact(d), "dispatched-slices-not-overwritten-before-handler-returns")
	if withTimeout {
		verifAssert(!c.badOrder, "every-read-preceded-by-deadline")
	} else {
		verifAssert(c.deadlines == 0, "no-deadline-without-timeout")
	}
	verifCover("end")
}

// VerifC12Cuts: longer streams (lines that really straddle several segments), at most two cuts at
// arbitrary positions.
func VerifC12Cuts() {
	maxL := verifDigit("L", 6)
	L := verifChoice("L", maxL+1)
	stream := verifBytes("s", L)
	c1 := verifChoice("cut1", L+1)
	c2 := c1 + verifChoice("cut2", L+1-c1)
	r := &verifCutReader{data: stream, cuts: []int{c1, c2}, endErr: io.EOF, errWithEnd: verifChoice("err-with-last-bytes", 2) == 1}
	d := &verifCapDisp{}
	err := NewPlain(d).Handle(r)
	verifAssert(r.pos == L, "handler-reads-stream-to-its-end")
	verifCheckLines(stream, d.copies)
	verifAssert(err == nil, "eof-is-not-an-error")
	verifCover("end")
}

// VerifC12UDP: one or two datagrams through handleData, received into the same buffer the way
// consumeUdp does. Every datagram is its own stream: lines(d1) ++ lines(d2).
func VerifC12UDP() {
	maxL := verifDigit("L", 4)
	n := 1 + verifChoice("datagrams", 2)
	d := &verifCapDisp{}
	l := NewListener("verif:2003", 0, NewPlain(d))
	buffer := make([]byte, 16)
	total := 0
	for i := 0; i < n; i++ {
		L := verifChoice("L", maxL+1-total)
		total += L
		dg := verifBytes("dg", L)
		copy(buffer, dg)
		before := len(d.copies)
		l.HandleData(l, buffer[:L], nil)
		verifCheckLines(dg, d.copies[before:])
	}
	verifAssert(d.invalid == 0, "no-invalid-count-for-plain")
	verifCover("end")
}

// VerifC12AMQP: one or two deliveries through the real consumeAMQP loop (bufio.Reader.ReadLine).
func VerifC12AMQP() {
	maxL := verifDigit("L", 4)
	n := 1 + verifChoice("deliveries", 2)
	d := &verifCapDisp{}
	ch := make(chan amqp.Delivery)
	a := &Amqp{dispatcher: d, shutdown: make(chan struct{}), delivery: ch}
	done := make(chan struct{})
	go func() {
		a.consumeAMQP()
		close(done)
	}()
	total := 0
	var bodies [][]byte
	var marks []int
	for i := 0; i < n; i++ {
		L := verifChoice("L", maxL+1-total)
		total += L
		body := verifBytes("body", L)
		bodies = append(bodies, body)
		ch <- amqp.Delivery{Body: body}
	}
	close(a.shutdown)
	<-done
	// every body is its own stream: split the capture at the per-body line counts
	total = 0
	for _, body := range bodies {
		w, _ := verifLines(body)
		marks = append(marks, len(w))
		total += len(w)
	}
	off := 0
	verifAssert(len(d.copies) == total, "dispatch-count-equals-line-count")
	if len(d.copies) == total {
		for i, body := range bodies {
			verifCheckLines(body, d.copies[off:off+marks[i]])
			off += marks[i]
		}
	}
	verifAssert(d.invalid == 0, "no-invalid-count-for-amqp")
	if verifParam("kept") == "1" {
		// experiment only (not registered): stronger than the Dispatcher contract, see obl_C12.py "outside"
		verifAssert(verifKeptIntact(d), "dispatched-slices-not-overwritten-before-consumer-returns")
	}
	verifCover("end")
}

// verifLongLine: n bytes, concrete filler with symbolic first/last byte that are not line terminators.
func verifLongLine(n int) []byte {
	line := bytes.Repeat([]byte{'a'}, n)
	if n > 0 {
		f := verifByte("first")
		l := verifByte("last")
		verifAssume(f != '\n' && f != '\r' && l != '\n' && l != '\r')
		line[0] = f
		line[n-1] = l
	}
	return line
}

// VerifC12Limits: concrete-length boundary runs. A line of exactly the supported maximum
// (65535 bytes on TCP/UDP, 4095 bytes on AMQP) followed by a short second line is processed whole.
func VerifC12Limits() {
	d := &verifCapDisp{}
	var stream []byte
	switch verifParam("path") {
	case "tcp":
		n := verifParamInt("len", 65535)
		line := verifLongLine(n)
		stream = append(append(append([]byte{}, line...), '\n'), 'b', '\n')
		cutset := []int{0, 1, 4095, 4096, 4097, 65534, 65535, 65536}
		if n != 65535 {
			// a mid-size line: cuts around the scanner's initial buffer size, its first doubling and the line end
			cutset = []int{0, 4096, 4097, 8192, n - 1, n, n + 1}
		}
		cut := cutset[verifChoice("cut", len(cutset))]
		r := &verifCutReader{data: stream, cuts: []int{cut}, endErr: io.EOF}
		err := NewPlain(d).Handle(r)
		verifAssert(err == nil, "eof-is-not-an-error")
	case "udp":
		line := verifLongLine(65532)
		stream = append(append(append([]byte{}, line...), '\n'), 'b', '\n')
		if verifChoice("unterminated", 2) == 1 {
			stream = verifLongLine(65535)
		}
		l := NewListener("verif:2003", 0, NewPlain(d))
		l.HandleData(l, stream, nil)
	case "amqp":
		line := verifLongLine(4095)
		stream = append(append(append([]byte{}, line...), '\n'), 'b', '\n')
		ch := make(chan amqp.Delivery)
		a := &Amqp{dispatcher: d, shutdown: make(chan struct{}), delivery: ch}
		done := make(chan struct{})
		go func() {
			a.consumeAMQP()
			close(done)
		}()
		ch <- amqp.Delivery{Body: stream}
		close(a.shutdown)
		<-done
	}
	verifCheckLines(stream, d.copies)
	verifCover("end")
}

// ---- UDP receive loop (native twins of the engine's UDP socket model: a real loopback socket)
var verifUDPNative *net.UDPConn

func verifNewUDPConn() *net.UDPConn {
	a, _ := net.ResolveUDPAddr("udp", "127.0.0.1:0")
	c, err := net.ListenUDP("udp", a)
	if err != nil {
		panic(err)
	}
	verifUDPNative = c
	return c
}

func verifUDPSend(c *net.UDPConn, dg []byte) {
	s, err := net.DialUDP("udp", nil, c.LocalAddr().(*net.UDPAddr))
	if err != nil {
		panic(err)
	}
	s.Write(dg)
	s.Close()
	time.Sleep(20 * time.Millisecond)
}

func verifUDPClose(c *net.UDPConn) { c.Close() }

// VerifC12UDPLoop: datagrams queued back to back on the socket are each processed as their own stream by
// the real receive loop (consumeUdp), whole and in order, although the loop reuses one receive buffer.
func VerifC12UDPLoop() {
	maxL := verifDigit("L", 3)
	d := &verifCapDisp{}
	l := NewListener("verif:2003", 0, NewPlain(d))
	conn := verifNewUDPConn()
	l.udpConn = conn
	var dgs [][]byte
	for i := 0; i < 2; i++ {
		dg := verifBytes("dg", 1+verifChoice("L", maxL))
		for _, b := range dg {
			verifAssume(b != '\r')
		}
		dgs = append(dgs, dg)
		verifUDPSend(conn, dg)
	}
	done := make(chan struct{})
	go func() {
		l.consumeUdp()
		close(done)
	}()
	verifSettle()
	if !verifIsSymbolic() {
		time.Sleep(100 * time.Millisecond)
	}
	close(l.shutdown)
	verifUDPClose(conn)
	verifSettle()
	l.wg.Wait()
	var all []byte
	for _, dg := range dgs {
		all = append(all, dg...)
		if len(dg) > 0 && dg[len(dg)-1] != '\n' {
			all = append(all, '\n') // each datagram is its own stream: its last line ends with the datagram
		}
	}
	verifCheckLines(all, d.copies)
	verifCover("end")
}

// verifStallConn: a sender that stalls in mid-stream: the bytes before the stall arrive (in one solver-chosen
// cut), then the read deadline expires (a timeout error that reports Temporary() == true, as *net.OpError
// does), and the rest of the stream would arrive if anybody read the connection again.
type verifStallConn struct {
	verifStubConn
	before, after []byte
	pos           int
	stalled       bool
	readsAfterErr int
	gotAfter      int
}

func (c *verifStallConn) Read(p []byte) (int, error) {
	if c.stalled {
		c.readsAfterErr++
		if c.gotAfter < len(c.after) {
			k := copy(p, c.after[c.gotAfter:])
			c.gotAfter += k
			return k, nil
		}
		return 0, io.EOF
	}
	if c.pos == len(c.before) {
		c.stalled = true
		return 0, verifErrTimeout
	}
	k := copy(p, c.before[c.pos:])
	c.pos += k
	return k, nil
}

// VerifC12StalledSender: the TCP path as acceptTcpConn drives it, with a read timeout, against a sender that
// stalls anywhere in the stream (also in the middle of a line). A read error ends the connection: what was
// received before it is processed as the lines of that prefix, and the connection is not read again (reading
// on would frame the rest of a cut line as a line of its own).
func VerifC12StalledSender() {
	maxL := verifDigit("L", 4)
	L := verifChoice("L", maxL+1)
	stream := verifBytes("s", L)
	cut := verifChoice("stall-at", L+1)
	c := &verifStallConn{before: stream[:cut], after: stream[cut:]}
	d := &verifCapDisp{}
	l := NewListener("verif:2003", 2*time.Minute, NewPlain(d))
	verifStepLimit(200000)
	l.HandleConn(l, NewTimeoutConn(c, l.readTimeout))
	verifAssert(c.readsAfterErr == 0, "connection-not-read-again-after-a-read-error")
	verifCheckLines(stream[:cut], d.copies)
	verifCover("end")
}

// VerifC12TwoStreams: one listener has ONE Plain handler, and every accepted TCP connection (and the UDP
// receive loop) runs it in its own goroutine. Stream A stalls in mid-line (its first segment ends inside a
// line); stream B (a whole little stream of free bytes, several lines) arrives meanwhile on the same handler
// and ends; then A resumes. Each stream must be framed as on its own: B's lines are exactly lines(B), A's lines
// exactly lines(A), whatever the other stream did in between. The streams use disjoint alphabets (A: newline and
// 'a'..'m', B: newline and 'n'..'z') so that the dispatched lines can be told apart; otherwise the bytes are free.
func VerifC12TwoStreams() {
	mk := func(tag string, first byte, n int) []byte {
		return append([]byte{first}, verifBytes(tag, n)...)
	}
	la := 2 + verifChoice("lenA", 3)
	lb := 1 + verifChoice("lenB", 3)
	a := mk("a", 'a', la)
	b := mk("b", 'n', lb)
	for _, c := range a[1:] {
		verifAssume(verifOr(c == '\n', verifAnd(c >= 'a', c <= 'm')))
	}
	for _, c := range b[1:] {
		verifAssume(verifOr(c == '\n', verifAnd(c >= 'n', c <= 'z')))
	}
	cut := 1 + verifChoice("cut", la)
	d := &verifCapDisp{}
	p := NewPlain(d)
	ra, rb := &verifConnReader{ch: make(chan []byte)}, &verifConnReader{ch: make(chan []byte)}
	doneA, doneB := make(chan bool, 1), make(chan bool, 1)
	var errA, errB error
	go func() { errA = p.Handle(ra); doneA <- true }()
	verifSettle()
	ra.ch <- a[:cut]
	verifSettle()
	go func() { errB = p.Handle(rb); doneB <- true }()
	verifSettle()
	rb.ch <- b
	verifSettle()
	close(rb.ch)
	<-doneB
	ra.ch <- a[cut:]
	verifSettle()
	close(ra.ch)
	<-doneA
	verifAssert(errA == nil && errB == nil, "clean-end-of-stream-is-no-error")
	// split what was dispatched by stream (disjoint alphabets; an empty line can come from either: lines are
	// compared per stream after removing empty ones)
	var gotA, gotB [][]byte
	for _, l := range d.copies {
		if len(l) == 0 {
			continue
		}
		if l[0] >= 'n' {
			gotB = append(gotB, l)
		} else {
			gotA = append(gotA, l)
		}
	}
	nonEmpty := func(s []byte) [][]byte {
		var r [][]byte
		ls, _ := verifLines(s)
		for _, l := range ls {
			if len(l) > 0 {
				r = append(r, l)
			}
		}
		return r
	}
	eq := func(x, y [][]byte) bool {
		if len(x) != len(y) {
			return false
		}
		ok := true
		for i := range x {
			if !bytes.Equal(x[i], y[i]) {
				ok = false
			}
		}
		return ok
	}
	verifAssert(eq(gotB, nonEmpty(b)), "stream-framed-on-its-own-while-another-connection-waits-in-mid-line")
	verifAssert(eq(gotA, nonEmpty(a)), "stalled-stream-framed-on-its-own-after-another-connection-came-and-went")
	verifCover("end")
}
