//go:build verif

package PKGNAME

// Harness runtime. The symbolic engine intercepts every verif* function by name and never
// executes these bodies; compiled natively they read the solver's counterexample from the
// file named by VERIF_REPLAY, so the same harness source is the replay test.

import (
	"encoding/json"
	"fmt"
	"io"
	"math"
	"net"
	"os"
	"strconv"
	"sync"
	"time"
)

type verifReplayT struct {
	Model  map[string]uint64 `json:"model"`
	Params map[string]string `json:"params"`
}

var verifReplay *verifReplayT
var verifCnt = map[string]int{}
var verifFailures []string
var verifAssumeFailed bool

type verifAssumeFail struct{}

func verifLoad() {
	if verifReplay != nil {
		return
	}
	verifReplay = &verifReplayT{Model: map[string]uint64{}, Params: map[string]string{}}
	if p := os.Getenv("VERIF_REPLAY"); p != "" {
		b, err := os.ReadFile(p)
		if err != nil {
			panic(err)
		}
		if err := json.Unmarshal(b, verifReplay); err != nil {
			panic(err)
		}
	}
}

func verifNext(name string) uint64 {
	verifLoad()
	k := verifCnt[name]
	verifCnt[name] = k + 1
	return verifReplay.Model[fmt.Sprintf("%s#%d", name, k)]
}

func verifByte(name string) byte       { return byte(verifNext(name)) }
func verifBool(name string) bool       { return verifNext(name) != 0 }
func verifUint16(name string) uint16   { return uint16(verifNext(name)) }
func verifUint32(name string) uint32   { return uint32(verifNext(name)) }
func verifUint64(name string) uint64   { return verifNext(name) }
func verifInt64(name string) int64     { return int64(verifNext(name)) }
func verifInt32(name string) int32     { return int32(verifNext(name)) }
func verifFloat64(name string) float64 { return math.Float64frombits(verifNext(name)) }
func verifInt(name string, lo, hi int) int {
	v := int(int64(verifNext(name)))
	verifAssume(lo <= v && v <= hi)
	return v
}
func verifBytes(name string, n int) []byte {
	r := make([]byte, n)
	for i := range r {
		r[i] = byte(verifNext(fmt.Sprintf("%s[%d]", name, i)))
	}
	return r
}
func verifString(name string, n int) string { return string(verifBytes(name, n)) }
func verifChoice(name string, n int) int {
	v := int(verifNext(name))
	verifAssume(v >= 0 && v < n)
	return v
}
func verifParam(name string) string {
	verifLoad()
	return verifReplay.Params[name]
}
func verifAssume(c bool) {
	if !c {
		verifAssumeFailed = true
		panic(verifAssumeFail{})
	}
}
func verifAssert(c bool, label string) {
	if !c {
		verifFailures = append(verifFailures, label)
		fmt.Printf("VERIF-ASSERT-FAIL %s\n", label)
	}
}
func verifFail(label string)  { verifAssert(false, label) }
func verifCover(label string) {}
// verifSettle (native): give the other goroutines time to run to quiescence. The base wait (VERIF_SETTLE_MS,
// default 50 ms) is stretched when the machine is loaded: whenever a 5 ms sleep oversleeps noticeably, the
// remaining wait is extended by a multiple of the overshoot (bounded), so that a loaded machine does not turn a
// replay into a timing flake.
func verifSettle() {
	base := 50 * time.Millisecond
	if v := os.Getenv("VERIF_SETTLE_MS"); v != "" {
		if n, err := strconv.Atoi(v); err == nil && n > 0 {
			base = time.Duration(n) * time.Millisecond
		}
	}
	deadline := time.Now().Add(base)
	limit := time.Now().Add(40 * base)
	for time.Now().Before(deadline) {
		t0 := time.Now()
		time.Sleep(5 * time.Millisecond)
		if over := time.Since(t0) - 5*time.Millisecond; over > 3*time.Millisecond {
			deadline = deadline.Add(4 * over)
			if deadline.After(limit) {
				deadline = limit
			}
		}
	}
}
func verifConcretize(x int) int { return x }
func verifSameBacking(a, b []byte) bool {
	if cap(a) == 0 || cap(b) == 0 {
		return false
	}
	a, b = a[:cap(a)], b[:cap(b)]
	for i := range a {
		if &a[i] == &b[0] {
			return true
		}
	}
	for i := range b {
		if &b[i] == &a[0] {
			return true
		}
	}
	return false
}
func verifIsSymbolic() bool       { return false }
func verifReportPanics(on bool)   {}
func verifSchedFork(on bool)      {}
func verifTraceMark() int         { return 0 }
func verifCalledSince(mark int, fn string) int { return 0 }
func verifBlockingOps() int       { return 0 }
func verifLog(v interface{})      {}

// verifRunNative runs a harness natively for replay; reports assertion failures and panics.
func verifRunNative(h func()) (failures []string, panicked interface{}) {
	defer func() {
		if p := recover(); p != nil {
			if _, ok := p.(verifAssumeFail); ok {
				failures = verifFailures
				return
			}
			panicked = p
			failures = verifFailures
		}
	}()
	h()
	return verifFailures, nil
}

func verifTick(i int) bool          { return false }
func verifNumTickers() int          { return 0 }
func verifTickerName(i int) string  { return "" }
func verifClockSymbolic()           {}
func verifClockSet(sec int64)       {}

// ---- file-system / crash-point support (native twins)
var verifCrashCounter int
var verifCrashTarget = -1

func verifCrashHere(label string) bool {
	if verifCrashTarget < 0 {
		verifLoad()
		verifCrashTarget = int(verifReplay.Model["crashpoint#0"])
	}
	verifCrashCounter++
	return verifCrashTarget != 0 && verifCrashCounter == verifCrashTarget
}
func verifFreezeOthers()    {}
func verifFsHooked()        {}
func verifFsUnhooked() bool { return false }
func verifFsMutations() int { return 0 }
func verifFsDump()          {}
func verifTempDir() string {
	d, err := os.MkdirTemp("", "verif-spool")
	if err != nil {
		panic(err)
	}
	return d
}

// verifSnapshotDir copies the directory (the state a crash at this instant would leave behind).
func verifSnapshotDir(dir string) string {
	d, err := os.MkdirTemp("", "verif-snap")
	if err != nil {
		panic(err)
	}
	ents, _ := os.ReadDir(dir)
	for _, e := range ents {
		b, err := os.ReadFile(dir + "/" + e.Name())
		if err == nil {
			os.WriteFile(d+"/"+e.Name(), b, 0600)
		}
	}
	return d
}

// non-short-circuit boolean connectives (no path fork in the engine)
func verifOr(a, b bool) bool  { return a || b }
func verifAnd(a, b bool) bool { return a && b }

// ---- TCP endpoint model, native twin: a real loopback listener whose accepted connections are logged
type verifNatConn struct {
	c   net.Conn
	mu  sync.Mutex
	log []byte
}

var verifEP struct {
	mu    sync.Mutex
	addr  string
	ln    net.Listener
	conns []*verifNatConn
}

// verifEndpointAddr: the address destinations should dial (a reserved loopback port natively).
func verifEndpointAddr() string {
	verifEP.mu.Lock()
	defer verifEP.mu.Unlock()
	if verifEP.addr == "" {
		ln, err := net.Listen("tcp", "127.0.0.1:0")
		if err != nil {
			panic(err)
		}
		verifEP.addr = ln.Addr().String()
		ln.Close()
	}
	return verifEP.addr
}

func verifEndpointUp(up bool) {
	addr := verifEndpointAddr()
	verifEP.mu.Lock()
	defer verifEP.mu.Unlock()
	if !up {
		if verifEP.ln != nil {
			verifEP.ln.Close()
			verifEP.ln = nil
		}
		return
	}
	if verifEP.ln != nil {
		return
	}
	ln, err := net.Listen("tcp", addr)
	if err != nil {
		panic(err)
	}
	verifEP.ln = ln
	go func() {
		for {
			c, err := ln.Accept()
			if err != nil {
				return
			}
			nc := &verifNatConn{c: c}
			verifEP.mu.Lock()
			verifEP.conns = append(verifEP.conns, nc)
			verifEP.mu.Unlock()
			go func() {
				buf := make([]byte, 4096)
				for {
					n, err := c.Read(buf)
					nc.mu.Lock()
					nc.log = append(nc.log, buf[:n]...)
					nc.mu.Unlock()
					if err != nil {
						return
					}
				}
			}()
		}
	}()
}
func verifNumConns() int {
	verifEP.mu.Lock()
	defer verifEP.mu.Unlock()
	return len(verifEP.conns)
}
func verifEndpointLog(k int) []byte {
	verifEP.mu.Lock()
	defer verifEP.mu.Unlock()
	if k < 0 || k >= len(verifEP.conns) {
		return nil
	}
	nc := verifEP.conns[k]
	nc.mu.Lock()
	defer nc.mu.Unlock()
	return append([]byte{}, nc.log...)
}
func verifEndpointClose(k int) {
	verifEP.mu.Lock()
	defer verifEP.mu.Unlock()
	if k >= 0 && k < len(verifEP.conns) {
		verifEP.conns[k].c.Close()
	}
}
func verifSleepsUnder(fn string) int    { return 0 } // (engine only) time.Sleep calls executed below a function whose name contains fn
func verifEndpointStallNew(on bool)     {} // (engine only) connections accepted from now on start out black-holing
func verifEndpointStall(k int, on bool) {} // a black-holing peer cannot be forced natively (kernel buffers)

// ---- http model observation (native twins: not implemented; engine-only harnesses)
func verifHTTPAcked() []byte          { return nil }
func verifHTTPAttempts() int          { return 0 }
func verifHTTPFailures() int          { return 0 }
func verifHTTPMaxFailures(n int)      {}
func verifHTTPAllowBadBody(on bool)   {}

// kafka producer model (engine only)
func verifKafkaNumSent() int      { return 0 }
func verifKafkaSent(i int) []byte { return nil }
func verifKafkaCalls() int        { return 0 }
func verifKafkaFailNext(n int)    {}

// verifFailBody: a response body that breaks off (used by the engine's http model for "error status with a
// body that cannot be read to the end").
type verifFailBody struct{}

func (verifFailBody) Read(p []byte) (int, error) { return 0, io.ErrUnexpectedEOF }
func (verifFailBody) Close() error               { return nil }
func verifHTTPRetriedSameBatch() bool { return true }

func verifStepLimit(n int) {}

// verifParamInt: integer parameter of the obligation (decimal), def when absent.
func verifParamInt(name string, def int) int {
	s := verifParam(name)
	if s == "" {
		return def
	}
	n := 0
	for i := 0; i < len(s); i++ {
		n = n*10 + int(s[i]-'0')
	}
	return n
}

func verifHTTPAllowStall(on bool) {}

// verifPreemptions: engine only (bounded-preemption exploration of interleavings); natively the Go scheduler decides.
func verifPreemptions(n int) {}

// verifTokenStream: engine only (token-level model of the toki lexer); natively the harness renders the tokens as text.
func verifTokenStream(kinds []uint32, vals [][]byte) {}
