//go:build verif

package main

// C20 (interpolation): readConfigFile passes the file's text through os.Expand(data, expandVars) before it
// is decoded. Documented variables: ${HOST} (examples/carbon-relay-ng.ini, CHANGELOG "$HOST") and
// ${GRAFANA_NET_ADDR}, ${GRAFANA_NET_API_KEY}, ${GRAFANA_NET_USER_ID} (docs/config.md). Everything else
// that contains a '$' -- in particular the $1 / ${1} group references of rewriter and aggregation
// templates (docs/tcp-admin-interface.md: "support for ${1} style identifiers in new") -- has to reach
// the TOML decoder byte for byte.

import (
	"os"
	"strings"
)

// verifC20Interpolate runs the real entry point: the file's text as main hands it to the TOML decoder.
func verifC20Interpolate(s string) string {
	path := os.TempDir() + "/verif-c20-config.ini"
	f, err := os.Create(path)
	if err != nil {
		panic(err)
	}
	f.WriteString(s)
	f.Close()
	return readConfigFile(path)
}

func verifC20Host() string {
	h, _ := os.Hostname()
	if i := strings.IndexByte(h, '.'); i >= 0 {
		h = h[:i]
	}
	return h
}

// VerifC20ExpandIdentity: arbitrary text of 0..maxlen bytes that mentions no documented variable.
func VerifC20ExpandIdentity() {
	maxlen := len(verifParam("maxlen"))
	n := verifChoice("len", maxlen+1)
	s := verifString("s", n)
	// no documented reference: with <= 8 bytes only $HOST and ${HOST} fit ($GRAFANA_NET_* need >= 17 bytes)
	verifAssume(!strings.Contains(s, "$HOST"))
	verifAssume(!strings.Contains(s, "${HOST}"))
	out := verifC20Interpolate(s)
	if strings.Contains(s, "${1}") {
		// the group reference of rewriter / aggregation templates
		verifAssert(out == s, "expand/unchanged-without-documented-variable/text-with-${1}")
	} else if i := verifConcretize(strings.Index(s, "${")); i >= 0 {
		if strings.Contains(s[i+2:], "}") {
			verifAssert(out == s, "expand/unchanged-without-documented-variable/text-with-${...}")
		} else {
			verifAssert(out == s, "expand/unchanged-without-documented-variable/text-with-unclosed-${")
		}
	} else {
		verifAssert(out == s, "expand/unchanged-without-documented-variable/text-without-${")
	}
	verifCover("end")
}

// VerifC20ExpandSubst: a documented reference between arbitrary '$'-free text is replaced by its value and
// nothing else changes.
func VerifC20ExpandSubst() {
	os.Setenv("GRAFANA_NET_ADDR", "http://addr/metrics")
	os.Setenv("GRAFANA_NET_API_KEY", "s3cret")
	os.Setenv("GRAFANA_NET_USER_ID", "4711")
	refs := []struct{ ref, val string }{
		{"${HOST}", verifC20Host()},
		{"$HOST", verifC20Host()},
		{"${GRAFANA_NET_ADDR}", "http://addr/metrics"},
		{"$GRAFANA_NET_ADDR", "http://addr/metrics"},
		{"${GRAFANA_NET_API_KEY}", "s3cret"},
		{"$GRAFANA_NET_API_KEY", "s3cret"},
		{"${GRAFANA_NET_USER_ID}", "4711"},
		{"$GRAFANA_NET_USER_ID", "4711"},
	}
	k := verifChoice("ref", len(refs))
	pre := verifString("pre", verifChoice("prelen", 3))
	post := verifString("post", verifChoice("postlen", 3))
	verifAssume(!strings.Contains(pre, "$"))
	verifAssume(!strings.Contains(post, "$"))
	if len(post) > 0 && refs[k].ref[1] != '{' {
		// an unbraced name ends at the first byte that is not a letter, digit or underscore
		c := post[0]
		verifAssume(!(c == '_' || '0' <= c && c <= '9' || 'a' <= c && c <= 'z' || 'A' <= c && c <= 'Z'))
	}
	out := verifC20Interpolate(pre + refs[k].ref + post)
	verifAssert(out == pre+refs[k].val+post, "expand/documented-variable-substituted")
	// two references in one value, as in the documented apikey example
	out2 := verifC20Interpolate(pre + "${GRAFANA_NET_USER_ID}:${GRAFANA_NET_API_KEY}" + post)
	verifAssert(out2 == pre+"4711:s3cret"+post, "expand/two-variables-in-one-value")
	verifCover("end")
}

// VerifC20ExpandExamples: the documented templates and a few '$' spellings, concretely (one example per path).
func VerifC20ExpandExamples() {
	ex := []struct{ name, in, want string }{
		{"aggregation-format-$1-$2", "format = 'stats.timers._sum_$1.requests.$2'", ""}, // docs/config.md
		{"rewriter-new-$1", "new = 'foo.$1.bar'", ""},
		{"regex-end-anchor", "regex = 'cpu$'", ""},
		{"regex-anchors-alternation", "regex = '^a$|^b$'", ""},
		{"lone-dollar", "a $ b", ""},
		{"double-dollar", "$$", ""},
		{"only-dollar", "$", ""},
		{"empty", "", ""},
		{"undocumented-variable", "$UNDOCUMENTED_VAR", ""},
		{"HOSTNAME-is-not-HOST", "$HOSTNAME", ""},
		{"braced-group-ref-in-rewriter-new", "new = 'foo.${1}.bar'", ""}, // docs/tcp-admin-interface.md: "${1} style identifiers in new"
		{"braced-group-ref-${1}x", "${1}x", ""},
		{"braced-group-ref-in-init-cmd", "'addRewriter /a(.)c/ x${1}y -1'", ""},
		{"braced-undocumented-variable", "${UNDOCUMENTED_VAR}", ""},
		{"instance-HOST", "instance = \"${HOST}\"", "instance = \"" + verifC20Host() + "\""}, // examples/carbon-relay-ng.ini
	}
	e := ex[verifChoice("example", len(ex))]
	want := e.want
	if want == "" {
		want = e.in
	}
	verifAssert(verifC20Interpolate(e.in) == want, "expand/example/"+e.name)
	verifCover("end")
}
