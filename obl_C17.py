PROPS["C17"] = {
    "bounds": "the real NewGrafanaNet shut down right after creation with 1..3 lines dispatched and no worker having run yet (concurrency 1..2); route object built as NewGrafanaNet does (workers real, schema/aggregation posters not started); 1..3 lines over two series, concurrency 1..2, flushMaxNum 1..3, flush timer firing after any line and, optionally, once before the first line (an idle interval; the timer model tracks whether a NewTimer timer is armed: it fires once and only again after Reset); per-request outcome chosen by the solver from {2xx, 4xx, 5xx, transport error, 5xx with a body that breaks off (one obligation)} with at most 2 failures per history; shard buffer of 1 for the full-buffer obligations; shutdown with 0..4 lines (of one or two series) dispatched and not yet flushed; non-blocking enqueue race: 2..3 concurrent dispatchers into one shard buffer of capacity 1..2 with 0..capacity lines already in it and no receiver, every interleaving with at most 2 (thorough 4) preemptions at channel / atomic / lock operations",
    "outside": "real HTTP/TLS and timeouts other than the overall http.Client.Timeout (a stalled exchange ends iff the client has a positive Timeout), the msgp/snappy body (CreateMsg and snappy are stubs: the batch identity is tracked instead), concurrency > 2, more than 2 consecutive failures",
    "assumptions": ["http client, CreateMsg, snappy.Writer, json.Unmarshal, backoff are engine stubs (engine/intrinsics_http.go); the client model reads the request body to its end at every attempt through the body's own Read: the batch an attempt carries is what the body delivers at that moment (an already consumed body delivers nothing and acknowledges nothing)", "failures are transient: after 2 failed attempts requests succeed"],
    "groups": [
        {"pkg": "route", "hdir": "route", "specs": [spec("C17/retry", "VerifC17Retry"), spec("C17/retry/failures<=3", "VerifC17Retry", {"maxfail": "3"}, tier="thorough"), spec("C17/retry/error-response-body-breaks-off", "VerifC17Retry", {"badbody": "1", "maxfail": "1"}), spec("C17/buffer", "VerifC17Buffer"), spec("C17/shutdown", "VerifC17Shutdown")]},
        # the route built by the real NewGrafanaNet (schema / aggregation files on the file-system model) against a peer
        # that stalls mid-exchange; engine-only: natively the harness would talk to a real socket
        {"pkg": "route", "hdir": "route", "no_native": True, "specs": [spec("C17/stalled-exchange", "VerifC17Stall"), spec("C17/early-shutdown", "VerifC17EarlyShutdown")]},
        # interleavings as decision variables (bounded preemption); natively the Go scheduler decides, so a violating
        # schedule is reported without a native reproduction being required
        {"pkg": "route", "hdir": "route", "native_optional": True, "specs": [
            spec("C17/nonblocking-race/2-producers/preemptions<=2", "VerifC17NonBlockingRace", {"producers": "2", "preemptions": "2"}),
            spec("C17/nonblocking-race/3-producers/preemptions<=2", "VerifC17NonBlockingRace", {"producers": "3", "preemptions": "2"}),
            spec("C17/nonblocking-race/3-producers/preemptions<=4", "VerifC17NonBlockingRace", {"producers": "3", "preemptions": "4"}, tier="thorough"),
        ]},
    ],
}
