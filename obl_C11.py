PROPS["C11"] = {
    "bounds": "DispatchAggregate on arbitrary lines of 1..4 bytes in a table whose blacklist, rewriter and drop-raw aggregation match everything; a self-matching rule (regex .*, output name 'agg') wired through Table.In with one point and three ticks, cache on/off, drop-raw on/off; drop-raw exactness for names of 1..3 bytes against a first aggregation with symbolic prefix + concrete regex/notRegex, with a timestamp inside the open window and with one whose bucket is already past the wait window; the input buffer overwritten before the aggregation worker runs (shared with C04); drop-raw under back-pressure (worker stuck handing an aggregate over, 1-slot input buffer full, one more matching metric)",
    "outside": "longer aggregate lines, several chained rules, the real wall-clock ticker",
    "assumptions": ["aggregations are driven through NewMocked with an injected clock and tick channel"],
    "groups": [
        {"pkg": "table", "hdir": "table", "specs": [
            spec("C11/bypass", "VerifC11Bypass"), spec("C11/noloop", "VerifC11NoLoop"),
            spec("C11/dropraw/1", "VerifC11DropRaw", {"regex": "^a(b|c)", "notRegex": "c$"}),
            spec("C11/dropraw/back-pressure", "VerifC11Backpressure"),
            # what an aggregation consumes is the metric it was handed, also when the input reuses its buffer before the worker runs (C04's obligation)
            spec("C11/input-buffer-reuse", "VerifC04IsolationAgg"),
            spec("C11/dropraw/late-point", "VerifC11DropRaw", {"regex": "^a(b|c)", "notRegex": "c$", "ts": "1499999900"}),
            spec("C11/dropraw/2", "VerifC11DropRaw", {"regex": "b", "notRegex": ""}),
            spec("C11/dropraw/3", "VerifC11DropRaw", {"regex": "^ab?c", "notRegex": "^abc"}, tier="thorough")]},
    ],
}
