# C12: input framing is independent of how the network chops the stream (harness/input/c12.go)
def _c12(id, harness, params=None, tier="quick"):
    return spec("C12/" + id, harness, params, tier=tier)

PROPS["C12"] = {
    "bounds": "byte streams of 0..4 symbolic bytes (thorough 0..6) through Plain.Handle with the real bufio.Scanner; reader stub = io.Reader contract with a solver-chosen count 0..min(len(p),remaining) per Read (every cut position, one-byte reads), last bytes optionally returned together with the terminating error, terminating error io.EOF or a timeout error, 0..1 zero-length reads (thorough up to 3); the TCP path as acceptTcpConn drives it (HandleConn + TimeoutConn over a stub net.Conn, read timeout off/on, SetReadDeadline may fail) for streams of 0..3 bytes; 1..2 UDP datagrams through handleData sharing one receive buffer, 0..4 bytes in total (thorough 6); 1..2 AMQP deliveries through the real consumeAMQP loop (bufio.Reader.ReadLine), 0..4 bytes in total (thorough 6); streams of 0..6 bytes delivered in at most 3 segments with both cut positions arbitrary (thorough); two streams on one Plain handler (as the listener runs it): stream A of 3..5 bytes stalls after any cut, stream B of 2..4 bytes comes and goes meanwhile, A resumes (disjoint alphabets, otherwise free bytes); concrete-length boundary runs: a 65535-byte line (TCP, 8 cut positions; also mid-size lines of 4096, 4097 and 12289 bytes with 7 cut positions around the scanner buffer sizes; UDP unterminated and a 65532-byte line plus a second line) and a 4095-byte line (AMQP) are dispatched whole",
    "outside": "streams longer than the bound other than the boundary runs (the Scanner's buffer growth/compaction path is only exercised by the concrete boundary runs); lines longer than the limits (Scanner returns ErrTooLong and the connection ends; ReadLine hands over-long AMQP lines on in 4096-byte fragments - documented as unsupported in amqp.go); the kernel sockets, AcceptTCP/ReadFrom and the amqp client library; what Table.Dispatch does with a line; slices handed to Dispatch are only required to be valid during the call (input.Dispatcher contract: implementations must not reuse buf after returning) - the AMQP path overwrites them on the next ReadLine",
    "assumptions": [
        "io.Reader contract for the connection: 0 <= n <= len(p); once an error was returned the stream is over",
        "oracle lines(stream): split at \\n, one trailing \\r removed, empty lines included, a final unterminated non-empty line included; tolerance (DESIGN.md): a trailing \\r on a final unterminated line may be kept (bufio.Reader.ReadLine keeps it, bufio.Scanner drops it)",
        "logrus calls are no-ops; amqp.Delivery values are constructed directly (Body only)",
    ],
    "groups": [
        {"pkg": "input", "hdir": "input", "specs": [
            _c12("tcp/plain/L<=3,zero-reads<=1", "VerifC12Plain", {"L": "3", "zeros": "1"}),
        ]},
        {"pkg": "input", "hdir": "input", "specs": [
            _c12("tcp/conn/L<=3", "VerifC12Conn", {"L": "3", "zeros": "0"}),
            _c12("tcp/conn/stalled-sender/L<=4", "VerifC12StalledSender", {"L": "4"}),
            _c12("tcp/two-streams-one-handler", "VerifC12TwoStreams"),
        ]},
        {"pkg": "input", "hdir": "input", "specs": [
            _c12("tcp/plain/L<=4", "VerifC12Plain", {"L": "4", "zeros": "0"}),
        ]},
        {"pkg": "input", "hdir": "input", "specs": [
            _c12("udp/L<=4", "VerifC12UDP", {"L": "4"}),
            _c12("udp/receive-loop", "VerifC12UDPLoop", {"L": "3"}),
            _c12("amqp/L<=4", "VerifC12AMQP", {"L": "4"}),
            _c12("limit/tcp-65535", "VerifC12Limits", {"path": "tcp"}),
            _c12("limit/tcp-4096", "VerifC12Limits", {"path": "tcp", "len": "4096"}),
            _c12("limit/tcp-4097", "VerifC12Limits", {"path": "tcp", "len": "4097"}),
            _c12("limit/tcp-12289", "VerifC12Limits", {"path": "tcp", "len": "12289"}),
            _c12("limit/udp-65535", "VerifC12Limits", {"path": "udp"}),
            _c12("limit/amqp-4095", "VerifC12Limits", {"path": "amqp"}),
        ]},
        {"pkg": "input", "hdir": "input", "specs": [
            _c12("tcp/plain/L<=4,zero-reads<=3", "VerifC12Plain", {"L": "4", "zeros": "3"}, tier="thorough"),
            _c12("tcp/conn/L<=4,zero-reads<=1", "VerifC12Conn", {"L": "4", "zeros": "1"}, tier="thorough"),
        ], "opts": {"thorough": {"budget_s": 6000}}},
        {"pkg": "input", "hdir": "input", "specs": [
            _c12("tcp/plain/L<=5,zero-reads<=1", "VerifC12Plain", {"L": "5", "zeros": "1"}, tier="thorough"),
        ], "opts": {"thorough": {"budget_s": 6000}}},
        {"pkg": "input", "hdir": "input", "specs": [
            _c12("tcp/plain/L<=6", "VerifC12Plain", {"L": "6", "zeros": "0"}, tier="thorough"),
        ], "opts": {"thorough": {"budget_s": 9000}}},
        {"pkg": "input", "hdir": "input", "specs": [
            _c12("tcp/plain/two-cuts/L<=6", "VerifC12Cuts", {"L": "6"}, tier="thorough"),
        ], "opts": {"thorough": {"budget_s": 6000}}},
        {"pkg": "input", "hdir": "input", "specs": [
            _c12("udp/L<=6", "VerifC12UDP", {"L": "6"}, tier="thorough"),
            _c12("amqp/L<=6", "VerifC12AMQP", {"L": "6"}, tier="thorough"),
        ]},
    ],
}
