package main

// Environment models: time, go-metrics registry, net (TCP endpoints).

import (
	"strings"
	"fmt"
	"go/types"

	"golang.org/x/tools/go/ssa"
)

func pkgType(pkgPath, name string) types.Type {
	p := E.prog.ImportedPackage(pkgPath)
	if p == nil {
		E.inconclusive("package " + pkgPath + " not loaded")
	}
	t := p.Type(name)
	if t == nil {
		E.inconclusive("no type " + pkgPath + "." + name)
	}
	return t.Object().Type()
}

func fieldIndex(t types.Type, name string) int {
	st := t.Underlying().(*types.Struct)
	for i := 0; i < st.NumFields(); i++ {
		if st.Field(i).Name() == name {
			return i
		}
	}
	panic("no field " + name + " in " + t.String())
}

const unixToInternal = (1969*365 + 1969/4 - 1969/100 + 1969/400) * 86400

// mkTime builds a time.Time for unix seconds sec (Term, 64 bit) and nanoseconds nsec (<1e9).
func mkTime(sec *Term, nsec *Term) value {
	t := pkgType("time", "Time")
	s := zero(t).(structure)
	s[fieldIndex(t, "wall")] = nsec
	s[fieldIndex(t, "ext")] = Add(sec, ConstBV(64, uint64(unixToInternal)))
	return s
}

func (e *Engine) now() value {
	if e.clockSymbolic {
		v := e.fresh("now", BV(64))
		lo := e.clockLast
		if lo == nil {
			lo = ConstBV(64, 1500000000)
		}
		e.assume(And(Sle(lo, v), Sle(v, ConstBV(64, 2000000000))))
		e.clockLast = v
		return mkTime(v, ConstBV(64, 0))
	}
	if e.clockLast == nil {
		e.clockLast = ConstBV(64, 1600000000)
	}
	return mkTime(e.clockLast, ConstBV(64, 0))
}

func (e *Engine) newTicker(kind string, pos string) (value, *Chan) {
	t := pkgType("time", kind)
	s := zero(t).(structure)
	ch := newChan(1, pkgType("time", "Time"))
	ch.name = kind + "@" + pos
	s[fieldIndex(t, "C")] = ch
	e.tickers = append(e.tickers, ch)
	cell := value(s)
	return &cell, ch
}

func init() {
	reg("time.Now", func(fr *frame, args []value) value { return E.now() })
	reg("time.runtimeNano", func(fr *frame, args []value) value { return ConstBV(64, 1000) })
	reg("time.Since", func(fr *frame, args []value) value { return ConstBV(64, 0) })
	reg("time.Until", func(fr *frame, args []value) value { return ConstBV(64, 0) })
	reg("time.Sleep", func(fr *frame, args []value) value {
		// remember on whose behalf the sleep happens (the functions on the sleeping goroutine's stack): harnesses ask
		// with verifSleepsUnder("<function name part>") whether a loop that must never wait slept
		var st []string
		for f := fr; f != nil; f = f.caller {
			if f.fn != nil {
				st = append(st, f.fn.String())
			}
		}
		E.sleepStacks = append(E.sleepStacks, strings.Join(st, " < "))
		d := args[0].(*Term)
		if d.IsConst() {
			n := d.Int64()
			if n < 0 {
				n = 0
			}
			E.sleep(fr.g, n)
		} else {
			E.sleep(fr.g, -1)
		}
		return nil
	})
	verifFuncs["verifSleepsUnder"] = func(fr *frame, a []value) value {
		sub := mustConcStr(a[0])
		n := 0
		for _, st := range E.sleepStacks {
			if strings.Contains(st, sub) {
				n++
			}
		}
		return mkI(n)
	}
	reg("time.NewTicker", func(fr *frame, args []value) value {
		d := args[0].(*Term)
		if E.branch(Sle(d, ConstBV(64, 0))) {
			goPanic("non-positive interval for NewTicker")
		}
		p, _ := E.newTicker("Ticker", E.where(fr.g))
		return p
	})
	reg("time.NewTimer", func(fr *frame, args []value) value {
		p, ch := E.newTicker("Timer", E.where(fr.g))
		ch.timer = true // armed state is tracked for NewTimer timers only (time.After / AfterFunc channels as before)
		return p
	})
	reg("time.After", func(fr *frame, args []value) value {
		_, ch := E.newTicker("Timer", E.where(fr.g))
		return ch
	})
	reg("time.Tick", func(fr *frame, args []value) value {
		_, ch := E.newTicker("Ticker", E.where(fr.g))
		return ch
	})
	reg("time.AfterFunc", func(fr *frame, args []value) value {
		p, _ := E.newTicker("Timer", E.where(fr.g))
		return p
	})
	reg("(*time.Ticker).Stop", func(fr *frame, args []value) value { return nil })
	reg("(*time.Ticker).Reset", func(fr *frame, args []value) value { return nil })
	// a Timer is armed from NewTimer / Reset until it fires or is stopped; Stop / Reset report whether it was armed
	timerChan := func(a value) *Chan {
		if p, ok := a.(*value); ok && p != nil {
			if s, ok := (*p).(structure); ok {
				if ch, ok := s[fieldIndex(pkgType("time", "Timer"), "C")].(*Chan); ok {
					return ch
				}
			}
		}
		return nil
	}
	reg("(*time.Timer).Stop", func(fr *frame, args []value) value {
		if ch := timerChan(args[0]); ch != nil {
			was := !ch.disarmed
			ch.disarmed = true
			return ConstBool(was)
		}
		return True
	})
	reg("(*time.Timer).Reset", func(fr *frame, args []value) value {
		if ch := timerChan(args[0]); ch != nil {
			was := !ch.disarmed
			ch.disarmed = false
			return ConstBool(was)
		}
		return True
	})
	reg("(time.Time).String", func(fr *frame, args []value) value { return mkStr("<time>") })
	reg("(time.Time).Format", func(fr *frame, args []value) value { return mkStr("<time>") })
	reg("(time.Duration).String", func(fr *frame, args []value) value {
		t := args[0].(*Term)
		if t.IsConst() {
			return mkStr(fmt.Sprintf("%dns", t.Int64()))
		}
		return mkStr("<duration>")
	})

	// verif control of the environment
	verifFuncs["verifTick"] = func(fr *frame, a []value) value {
		// fire the i-th ticker created so far (creation order); returns false if no such ticker or its buffer is full
		i := int(concInt(a[0], true))
		if i < 0 || i >= len(E.tickers) {
			return False
		}
		ch := E.tickers[i]
		if ch.timer && ch.disarmed {
			return False // a timer that fired or was stopped and was not Reset does not fire again
		}
		E.clockAdvance()
		idx, _, _ := E.selectOp(fr.g, []selCase{{ch: ch, send: true, val: E.now()}}, true, "tick")
		if ch.timer && idx == 0 {
			ch.disarmed = true
		}
		return ConstBool(idx == 0)
	}
	verifFuncs["verifNumTickers"] = func(fr *frame, a []value) value { return mkI(len(E.tickers)) }
	verifFuncs["verifTickerName"] = func(fr *frame, a []value) value {
		i := int(concInt(a[0], true))
		if i < 0 || i >= len(E.tickers) {
			return mkStr("")
		}
		return mkStr(E.tickers[i].name)
	}
	verifFuncs["verifClockSymbolic"] = func(fr *frame, a []value) value { E.clockSymbolic = true; return nil }
	verifFuncs["verifClockSet"] = func(fr *frame, a []value) value { E.clockLast = a[0].(*Term); return nil }

	// ---- go-metrics registry: one instance per name, per path
	reg("github.com/Dieterbe/go-metrics.GetOrRegister", func(fr *frame, args []value) value {
		name := args[0].(Str).String() // symbolic names are keyed by their term rendering
		if v, ok := E.registry[name]; ok {
			return v
		}
		it := args[1].(iface)
		if _, isSig := it.t.Underlying().(*types.Signature); isSig {
			it = callValue(fr, 0, it.v, nil).(iface)
		}
		E.registry[name] = it
		return it
	})
	reg("github.com/Dieterbe/go-metrics.Register", func(fr *frame, args []value) value {
		name := mustConcStr(args[0])
		E.registry[name] = args[1]
		return nilError()
	})
	reg("github.com/Dieterbe/go-metrics.Get", func(fr *frame, args []value) value {
		name := mustConcStr(args[0])
		if v, ok := E.registry[name]; ok {
			return v
		}
		return iface{}
	})
	// timers / histograms / meters: shells without internals (their internals use tickers, samples, rand);
	// Timer.Time(f) still calls f.
	nop := func(fr *frame, args []value) value { return nil }
	zeroInt := func(fr *frame, args []value) value { return ConstBV(64, 0) }
	mkShell := func(kind string) value {
		h := &hostObj{name: "metrics." + kind, methods: map[string]*hostFunc{}}
		for _, m := range []string{"Update", "UpdateSince", "Mark", "Clear", "Stop"} {
			h.methods[m] = &hostFunc{name: m, f: nop}
		}
		for _, m := range []string{"Count", "Max", "Min", "Sum"} {
			h.methods[m] = &hostFunc{name: m, f: zeroInt}
		}
		h.methods["Time"] = &hostFunc{name: "Time", f: func(fr *frame, args []value) value {
			callValue(fr, 0, args[1], nil)
			return nil
		}}
		h.methods["Snapshot"] = &hostFunc{name: "Snapshot", f: func(fr *frame, args []value) value {
			return iface{t: pkgType("github.com/Dieterbe/go-metrics", "Nil"+kind), v: h}
		}}
		return iface{t: pkgType("github.com/Dieterbe/go-metrics", "Nil"+kind), v: h}
	}
	reg("github.com/Dieterbe/go-metrics.NewMeter", func(fr *frame, args []value) value { return mkShell("Meter") })
	reg("github.com/Dieterbe/go-metrics.NewHistogram", func(fr *frame, args []value) value { return mkShell("Histogram") })
	reg("github.com/Dieterbe/go-metrics.NewWindowSample", func(fr *frame, args []value) value { return mkShell("Sample") })
	reg("github.com/Dieterbe/go-metrics.NewCustomTimer", func(fr *frame, args []value) value { return mkShell("Timer") })
	reg("github.com/Dieterbe/go-metrics.NewTimer", func(fr *frame, args []value) value { return mkShell("Timer") })

	// ---- net: TCP endpoints are down unless the harness brings one up
	reg("net.ResolveTCPAddr", func(fr *frame, args []value) value {
		t := pkgType("net", "TCPAddr")
		s := zero(t)
		cell := value(s)
		return tuple{&cell, nilError()}
	})
	reg("net.Dial", func(fr *frame, args []value) value {
		E.netDials++
		return tuple{iface{}, mkError("dial: connection refused (verif endpoint model: down)")}
	})
	reg("net.DialTimeout", func(fr *frame, args []value) value {
		E.netDials++
		return tuple{iface{}, mkError("dial: connection refused (verif endpoint model: down)")}
	})
}

func (e *Engine) clockAdvance() {
	if e.clockSymbolic {
		return
	}
	if e.clockLast == nil {
		e.clockLast = ConstBV(64, 1600000000)
	}
	e.clockLast = Add(e.clockLast, ConstBV(64, 1))
}

var _ = ssa.NaiveForm

func callPkgFunc(fr *frame, pkgPath, name string, args []value) value {
	p := E.prog.ImportedPackage(pkgPath)
	if p == nil {
		E.inconclusive("package " + pkgPath + " not loaded")
	}
	f := p.Func(name)
	if f == nil {
		E.inconclusive("no function " + pkgPath + "." + name)
	}
	return callSSA(fr, 0, f, args, nil)
}

func init() {
	// assembly kernels with a pure-Go twin in the same package
	reg("crypto/md5.block", func(fr *frame, args []value) value {
		return callPkgFunc(fr, "crypto/md5", "blockGeneric", args)
	})
}
