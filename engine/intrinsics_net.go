package main

// TCP endpoint model: DialTCP succeeds only while the harness says the endpoint is up; every
// successful dial creates a new connection incarnation whose received bytes are logged.

type netConn struct {
	id           int
	log          []*Term
	closedByPeer bool
	closedLocal  bool
	stalled      bool
}

func hostConnOf(v value) *netConn {
	p, _ := v.(*value)
	if p == nil {
		goPanic("runtime error: invalid memory address or nil pointer dereference (nil *net.TCPConn)")
	}
	c, ok := E.netByPtr[p]
	if !ok {
		E.inconclusive("net.TCPConn not created by the endpoint model")
	}
	return c
}

func init() {
	reg("net.DialTCP", func(fr *frame, args []value) value {
		E.netDials++
		if !E.netUp {
			return tuple{(*value)(nil), mkError("dial tcp: connection refused (verif endpoint model: down)")}
		}
		c := &netConn{id: len(E.netConns), stalled: E.netStallNew}
		E.netConns = append(E.netConns, c)
		// a real TCPConn struct value; the model object is found through the address of the struct and
		// of its embedded conn field (the receiver of the promoted Read/Write/Close methods)
		st := zero(pkgType("net", "TCPConn")).(structure)
		cell := value(st)
		if E.netByPtr == nil {
			E.netByPtr = map[*value]*netConn{}
		}
		E.netByPtr[&cell] = c
		E.netByPtr[&st[0]] = c
		return tuple{&cell, nilError()}
	})
	reg("(*net.TCPConn).Write", func(fr *frame, args []value) value {
		c := hostConnOf(args[0])
		E.blockUntil(fr.g, "TCP write to a stalled endpoint", func() bool { return !c.stalled || c.closedLocal || c.closedByPeer })
		if c.closedLocal || c.closedByPeer {
			return tuple{mkI(0), mkError("write tcp: broken pipe (verif endpoint model)")}
		}
		p := bytesToTerms(args[1])
		c.log = append(c.log, p...)
		return tuple{mkI(len(p)), nilError()}
	})
	// (*net.conn).Write/Read/Close are the promoted methods actually called through *TCPConn
	reg("(*net.conn).Write", intrinsics["(*net.TCPConn).Write"])
	readf := func(fr *frame, args []value) value {
		c := hostConnOf(args[0])
		E.blockUntil(fr.g, "TCP read (waiting for the peer)", func() bool { return c.closedLocal || c.closedByPeer })
		if c.closedByPeer {
			return tuple{mkI(0), ioEOF()}
		}
		return tuple{mkI(0), mkError("read tcp: use of closed network connection")}
	}
	reg("(*net.TCPConn).Read", readf)
	reg("(*net.conn).Read", readf)
	closef := func(fr *frame, args []value) value {
		c := hostConnOf(args[0])
		if c.closedLocal {
			return mkError("close tcp: use of closed network connection")
		}
		c.closedLocal = true
		return nilError()
	}
	reg("(*net.TCPConn).Close", closef)
	reg("(*net.conn).Close", closef)
	okf := func(fr *frame, args []value) value { return nilError() }
	for _, m := range []string{"SetDeadline", "SetReadDeadline", "SetWriteDeadline", "SetKeepAlive", "SetNoDelay", "SetLinger", "SetKeepAlivePeriod", "SetReadBuffer", "SetWriteBuffer"} {
		reg("(*net.TCPConn)."+m, okf)
		reg("(*net.conn)."+m, okf)
	}

	verifFuncs["verifEndpointAddr"] = func(fr *frame, a []value) value { return mkStr("127.0.0.1:2003") }
	verifFuncs["verifEndpointUp"] = func(fr *frame, a []value) value { E.netUp = a[0].(*Term).IsTrue(); return nil }
	verifFuncs["verifEndpointStallNew"] = func(fr *frame, a []value) value { E.netStallNew = a[0].(*Term).IsTrue(); return nil }
	verifFuncs["verifNumConns"] = func(fr *frame, a []value) value { return mkI(len(E.netConns)) }
	verifFuncs["verifEndpointLog"] = func(fr *frame, a []value) value {
		k := int(concInt(a[0], true))
		if k < 0 || k >= len(E.netConns) {
			return []value{}
		}
		return termsToSlice(append([]*Term(nil), E.netConns[k].log...))
	}
	verifFuncs["verifEndpointClose"] = func(fr *frame, a []value) value {
		k := int(concInt(a[0], true))
		if k >= 0 && k < len(E.netConns) {
			E.netConns[k].closedByPeer = true
		}
		return nil
	}
	verifFuncs["verifEndpointStall"] = func(fr *frame, a []value) value {
		k := int(concInt(a[0], true))
		if k >= 0 && k < len(E.netConns) {
			E.netConns[k].stalled = a[1].(*Term).IsTrue()
		}
		return nil
	}
}
