package main

import (
	"fmt"
	"go/token"
	"go/types"
	"os"
	"strings"

	"golang.org/x/tools/go/ssa"
)

type deferred struct {
	fn    value
	args  []value
	instr *ssa.Defer
	tail  *deferred
}

type frame struct {
	g                *G
	caller           *frame
	fn               *ssa.Function
	block, prevBlock *ssa.BasicBlock
	env              map[ssa.Value]value
	locals           []value
	defers           *deferred
	result           value
	panicking        bool
	panic            interface{}
	phitemps         []value
	curInstr         ssa.Instruction
}

func (fr *frame) get(key ssa.Value) value {
	switch key := key.(type) {
	case nil:
		return nil
	case *ssa.Function, *ssa.Builtin:
		return key
	case *ssa.Const:
		return constValue(key)
	case *ssa.Global:
		return E.globalAddr(key)
	}
	if r, ok := fr.env[key]; ok {
		return r
	}
	panic(fmt.Sprintf("get: no value for %T: %v in %s", key, key.Name(), fr.fn))
}

func isEngineSignal(p interface{}) bool {
	switch p.(type) {
	case pathEndSignal, abortSignal:
		return true
	}
	return false
}

func (fr *frame) runDefer(d *deferred) {
	var ok bool
	defer func() {
		if !ok {
			p := recover()
			if isEngineSignal(p) {
				panic(p)
			}
			fr.panicking = true
			fr.panic = p
		}
	}()
	callValue(fr, d.instr.Pos(), d.fn, d.args)
	ok = true
}

func (fr *frame) runDefers() {
	for d := fr.defers; d != nil; d = d.tail {
		fr.runDefer(d)
	}
	fr.defers = nil
	if fr.panicking {
		panic(fr.panic)
	}
}

func lookupMethod(typ types.Type, meth *types.Func) *ssa.Function {
	return E.prog.LookupMethod(typ, meth.Pkg(), meth.Name())
}

type continuation int

const (
	kNext continuation = iota
	kReturn
	kJump
)

func goPanic(msg string) {
	E.lastPanicStack = E.stack()
	panic(targetPanic{msg: msg})
}

func asIntTerm(v value) *Term {
	t := v.(*Term)
	return t
}

// concInt forces an integer value to a concrete int (forking over feasible values).
func concInt(v value, signed bool) int64 {
	t := v.(*Term)
	if t.IsConst() {
		if signed {
			return t.Int64()
		}
		return int64(t.C)
	}
	c := E.concretize(t, 70000)
	if signed {
		return sext64(c, t.S.W)
	}
	return int64(c)
}

// concSize concretises an allocation size: all negative values form one class (the allocation panics
// whatever the value), so a symbolic size forks on its sign first and only the non-negative values are
// enumerated.
func concSize(v value, msg string) int64 {
	t := v.(*Term)
	if !t.IsConst() && E.branch(Slt(t, ConstBV(t.S.W, 0))) {
		goPanic(msg)
	}
	return concInt(v, true)
}

func visitInstr(fr *frame, instr ssa.Instruction) continuation {
	switch instr := instr.(type) {
	case *ssa.DebugRef:

	case *ssa.UnOp:
		fr.env[instr] = unop(fr, instr, fr.get(instr.X))

	case *ssa.BinOp:
		fr.env[instr] = binop(instr.Op, instr.X.Type(), instr.Y.Type(), fr.get(instr.X), fr.get(instr.Y))

	case *ssa.Call:
		fn, args := prepareCall(fr, &instr.Call)
		fr.env[instr] = callValue(fr, instr.Pos(), fn, args)

	case *ssa.ChangeInterface:
		fr.env[instr] = fr.get(instr.X)

	case *ssa.ChangeType:
		fr.env[instr] = fr.get(instr.X)

	case *ssa.Convert:
		fr.env[instr] = conv(instr.Type(), instr.X.Type(), fr.get(instr.X))

	case *ssa.MultiConvert:
		fr.env[instr] = conv(instr.Type(), instr.X.Type(), fr.get(instr.X))

	case *ssa.SliceToArrayPointer:
		x := fr.get(instr.X).([]value)
		n := instr.Type().Underlying().(*types.Pointer).Elem().Underlying().(*types.Array).Len()
		if int64(len(x)) < n {
			goPanic("runtime error: cannot convert slice to array pointer: length too short")
		}
		if x == nil {
			fr.env[instr] = (*value)(nil)
		} else {
			v := value(array(x[:n:n]))
			fr.env[instr] = &v
		}

	case *ssa.MakeInterface:
		fr.env[instr] = iface{t: instr.X.Type(), v: fr.get(instr.X)}

	case *ssa.Extract:
		fr.env[instr] = fr.get(instr.Tuple).(tuple)[instr.Index]

	case *ssa.Slice:
		fr.env[instr] = sliceOp(instr, fr.get(instr.X), fr.get(instr.Low), fr.get(instr.High), fr.get(instr.Max))

	case *ssa.Return:
		switch len(instr.Results) {
		case 0:
		case 1:
			fr.result = fr.get(instr.Results[0])
		default:
			var res []value
			for _, r := range instr.Results {
				res = append(res, fr.get(r))
			}
			fr.result = tuple(res)
		}
		fr.block = nil
		return kReturn

	case *ssa.RunDefers:
		fr.runDefers()

	case *ssa.Panic:
		E.lastPanicStack = E.stack()
		panic(targetPanic{v: fr.get(instr.X)})

	case *ssa.Send:
		if E.traceCalls {
			E.traceLog = append(E.traceLog, traceEvent{fn: "op:plain-chan-send in " + fr.fn.String()})
		}
		ch, _ := fr.get(instr.Chan).(*Chan)
		E.chanSend(fr.g, ch, fr.get(instr.X))

	case *ssa.Store:
		doStore(deref(instr.Addr.Type()), fr.get(instr.Addr), fr.get(instr.Val))

	case *ssa.If:
		succ := 1
		if E.branch(fr.get(instr.Cond).(*Term)) {
			succ = 0
		}
		fr.prevBlock, fr.block = fr.block, fr.block.Succs[succ]
		return kJump

	case *ssa.Jump:
		fr.prevBlock, fr.block = fr.block, fr.block.Succs[0]
		return kJump

	case *ssa.Defer:
		fn, args := prepareCall(fr, &instr.Call)
		defers := &fr.defers
		if instr.DeferStack != nil {
			if into := fr.get(instr.DeferStack); into != nil {
				defers = into.(**deferred)
			}
		}
		*defers = &deferred{fn: fn, args: args, instr: instr, tail: *defers}

	case *ssa.Go:
		fn, args := prepareCall(fr, &instr.Call)
		E.spawn(fn, args, instr.Pos())
		E.preemptPoint(fr.g, "statement after go")

	case *ssa.MakeChan:
		n := concSize(fr.get(instr.Size), "makechan: size out of range")
		if n < 0 {
			goPanic("makechan: size out of range")
		}
		fr.env[instr] = newChan(int(n), instr.Type().Underlying().(*types.Chan).Elem())

	case *ssa.Alloc:
		var addr *value
		if instr.Heap {
			addr = new(value)
			fr.env[instr] = addr
		} else {
			addr = fr.env[instr].(*value)
		}
		*addr = zero(deref(instr.Type()))

	case *ssa.MakeSlice:
		c := concSize(fr.get(instr.Cap), "runtime error: makeslice: cap out of range")
		l := concSize(fr.get(instr.Len), "runtime error: makeslice: len out of range")
		if l < 0 || c < l || c > 1<<28 {
			goPanic("runtime error: makeslice: len/cap out of range")
		}
		sl := make([]value, c)
		tElt := instr.Type().Underlying().(*types.Slice).Elem()
		if c > 0 {
			z := zero(tElt)
			switch z.(type) {
			case *Term, Str, *value, iface, []value, *Map, *Chan:
				for i := range sl {
					sl[i] = z
				}
			default:
				sl[0] = z
				for i := 1; i < len(sl); i++ {
					sl[i] = zero(tElt)
				}
			}
		}
		fr.env[instr] = sl[:l]

	case *ssa.MakeMap:
		fr.env[instr] = newMap(instr.Type().Underlying().(*types.Map))

	case *ssa.Range:
		fr.env[instr] = rangeIter(fr.get(instr.X), instr.X.Type())

	case *ssa.Next:
		fr.env[instr] = fr.get(instr.Iter).(iter).next()

	case *ssa.FieldAddr:
		p := fr.get(instr.X).(*value)
		if p == nil {
			goPanic("runtime error: invalid memory address or nil pointer dereference")
		}
		fa := &(*p).(structure)[instr.Field]
		fr.env[instr] = fa
		// remember which struct an RWMutex field belongs to (see MapUpdate: a map field of the same struct
		// written while only the read lock is held)
		if st, ok := deref(instr.X.Type()).Underlying().(*types.Struct); ok && st.Field(instr.Field).Type().String() == "sync.RWMutex" {
			if E.rwOwner == nil {
				E.rwOwner = map[*value]*value{}
			}
			E.rwOwner[fa] = p
		}

	case *ssa.Field:
		fr.env[instr] = fr.get(instr.X).(structure)[instr.Field]

	case *ssa.IndexAddr:
		x := fr.get(instr.X)
		idx := fr.get(instr.Index).(*Term)
		var elems []value
		switch x := x.(type) {
		case []value:
			elems = x
		case *value:
			if x == nil {
				goPanic("runtime error: invalid memory address or nil pointer dereference")
			}
			elems = []value((*x).(array))
		default:
			panic(fmt.Sprintf("unexpected x type in IndexAddr: %T", x))
		}
		if idx.IsConst() {
			i := idx.Int64()
			if !isSigned(instr.Index.Type()) {
				i = int64(idx.C)
				if idx.C > 1<<40 {
					i = -1
				}
			}
			if i < 0 || i >= int64(len(elems)) {
				goPanic(fmt.Sprintf("runtime error: index out of range [%d] with length %d", i, len(elems)))
			}
			fr.env[instr] = &elems[i]
		} else {
			i64 := toInt64Term(idx, isSigned(instr.Index.Type()))
			inb := Ult(i64, mkI(len(elems)))
			if !E.branch(inb) {
				goPanic(fmt.Sprintf("runtime error: index out of range [symbolic] with length %d", len(elems)))
			}
			fr.env[instr] = symElem{elems: elems, idx: i64}
		}

	case *ssa.Index:
		x := fr.get(instr.X)
		idx := fr.get(instr.Index).(*Term)
		var elems []value
		switch x := x.(type) {
		case array:
			elems = x
		case Str:
			elems = termsToSlice(x.b)
		default:
			panic(fmt.Sprintf("unexpected x type in Index: %T", x))
		}
		i64 := toInt64Term(idx, isSigned(instr.Index.Type()))
		inb := Ult(i64, mkI(len(elems)))
		if !E.branch(inb) {
			goPanic(fmt.Sprintf("runtime error: index out of range with length %d", len(elems)))
		}
		if i64.IsConst() {
			fr.env[instr] = elems[i64.C]
		} else {
			fr.env[instr] = symLoad(symElem{elems, i64})
		}

	case *ssa.Lookup:
		fr.env[instr] = lookup(instr, fr.get(instr.X), fr.get(instr.Index))

	case *ssa.MapUpdate:
		m := fr.get(instr.Map).(*Map)
		if m == nil {
			goPanic("assignment to entry in nil map")
		}
		// RWMutex misuse: a map that is a field of the struct whose RWMutex this goroutine holds for READING only is
		// being written. Readers are admitted concurrently, so two of them can be here at once; Go's runtime then
		// kills the process ("fatal error: concurrent map writes"). Decided structurally on every path, no second
		// goroutine needed.
		for lp, cnt := range fr.g.rlocks {
			if cnt <= 0 {
				continue
			}
			if ls := E.lockState(lp); ls.writer && ls.owner == fr.g {
				continue
			}
			if owner := E.rwOwner[lp]; owner != nil {
				if st, ok := (*owner).(structure); ok {
					for _, fv := range st {
						if fm, ok := fv.(*Map); ok && fm == m {
							E.assert(False, "structural/map-written-while-only-the-read-lock-of-its-RWMutex-is-held")
						}
					}
				}
			}
		}
		m.insert(fr.get(instr.Key), fr.get(instr.Value))

	case *ssa.TypeAssert:
		fr.env[instr] = typeAssert(instr, fr.get(instr.X).(iface))

	case *ssa.MakeClosure:
		var bindings []value
		for _, binding := range instr.Bindings {
			bindings = append(bindings, fr.get(binding))
		}
		fr.env[instr] = &closure{instr.Fn.(*ssa.Function), bindings}

	case *ssa.Phi:
		panic("unreachable")

	case *ssa.Select:
		fr.env[instr] = E.selectInstr(fr, instr)

	default:
		panic(fmt.Sprintf("unexpected instruction: %T", instr))
	}
	return kNext
}

func deref(t types.Type) types.Type {
	if p, ok := t.Underlying().(*types.Pointer); ok {
		return p.Elem()
	}
	panic(fmt.Sprintf("deref: not a pointer: %v", t))
}

func toInt64Term(t *Term, signed bool) *Term {
	if t.S.W == 64 {
		return t
	}
	if signed {
		return SExt(t, 64)
	}
	return ZExt(t, 64)
}

func doStore(T types.Type, addr value, v value) {
	switch a := addr.(type) {
	case *value:
		if a == nil {
			goPanic("runtime error: invalid memory address or nil pointer dereference")
		}
		store(T, a, v)
	case symElem:
		nv, ok := v.(*Term)
		if !ok {
			// concretize index
			i := E.concretize(a.idx, 4096)
			store(T, &a.elems[i], v)
			return
		}
		for i := range a.elems {
			old := a.elems[i].(*Term)
			a.elems[i] = Ite(Eq(a.idx, mkI(i)), nv, old)
		}
	default:
		panic(fmt.Sprintf("store to %T", addr))
	}
}

// symLoad builds the value of elems[idx] for a symbolic idx.
func symLoad(p symElem) value {
	if len(p.elems) == 0 {
		panic("symLoad on empty")
	}
	if _, ok := p.elems[0].(*Term); !ok {
		i := E.concretize(p.idx, 4096)
		return p.elems[i]
	}
	// group indices by value
	groups := map[*Term][]int{}
	var order []*Term
	for i, e := range p.elems {
		t := e.(*Term)
		if _, ok := groups[t]; !ok {
			order = append(order, t)
		}
		groups[t] = append(groups[t], i)
	}
	// default = largest group
	var def *Term
	for _, t := range order {
		if def == nil || len(groups[t]) > len(groups[def]) {
			def = t
		}
	}
	r := def
	for j := len(order) - 1; j >= 0; j-- {
		t := order[j]
		if t == def {
			continue
		}
		c := False
		for _, i := range groups[t] {
			c = Or(c, Eq(p.idx, mkI(i)))
		}
		r = Ite(c, t, r)
	}
	return r
}

func prepareCall(fr *frame, call *ssa.CallCommon) (fn value, args []value) {
	v := fr.get(call.Value)
	if call.Method == nil {
		fn = v
	} else {
		recv := v.(iface)
		if recv.t == nil {
			goPanic("runtime error: invalid memory address or nil pointer dereference (method " + call.Method.Name() + " invoked on nil interface)")
		}
		if hf, ok := recv.v.(*hostObj); ok {
			fn = hf.method(call.Method.Name())
		} else if f := lookupMethod(recv.t, call.Method); f == nil {
			panic(fmt.Sprintf("method set for dynamic type %v does not contain %s", recv.t, call.Method))
		} else {
			fn = f
		}
		args = append(args, recv.v)
	}
	for _, arg := range call.Args {
		args = append(args, fr.get(arg))
	}
	return
}

func callValue(caller *frame, callpos token.Pos, fn value, args []value) value {
	switch fn := fn.(type) {
	case *ssa.Function:
		if fn == nil {
			goPanic("runtime error: invalid memory address or nil pointer dereference (call of nil func)")
		}
		return callSSA(caller, callpos, fn, args, nil)
	case *closure:
		if fn == nil {
			goPanic("runtime error: call of nil func")
		}
		return callSSA(caller, callpos, fn.Fn, args, fn.Env)
	case *ssa.Builtin:
		return callBuiltin(caller, callpos, fn, args)
	case *hostFunc:
		return fn.f(caller, args)
	}
	panic(fmt.Sprintf("cannot call %T", fn))
}

func fnKey(fn *ssa.Function) string {
	if o := fn.Origin(); o != nil {
		return o.String()
	}
	return fn.String()
}

func callSSA(caller *frame, callpos token.Pos, fn *ssa.Function, args []value, env []value) value {
	g := E.curG
	if m := stubRedirect(fn); m != nil { // verifStubFunc (intrinsics_c20.go): harness-provided Go model
		fn = m
	}
	fr := &frame{g: g, caller: caller, fn: fn}
	name := fnKey(fn)
	if fn.Parent() == nil {
		if ft, ok := fallthroughs[name]; ok {
			// a model that applies only in some mode (e.g. token-stream mode of the toki scanner)
			old := g.top
			g.top = fr
			r := ft(fr, args)
			g.top = old
			if _, no := r.(fallThroughT); !no {
				return r
			}
		}
		if ext, ok := intrinsics[name]; ok {
			E.StubsUsed[name] = true
			if E.traceCalls {
				E.traceLog = append(E.traceLog, traceEvent{fn: name})
			}
			old := g.top
			g.top = fr
			fr.curInstr = nil
			r := ext(fr, args)
			g.top = old
			return r
		}
		if fn.Pkg != nil && fn.Pkg == E.harnessPkg && strings.HasPrefix(fn.Name(), "verif") {
			if h, ok := verifFuncs[fn.Name()]; ok {
				old := g.top
				g.top = fr
				r := h(fr, args)
				g.top = old
				return r
			}
		}
	}
	if fn.Synthetic == "package initializer" && fn != E.initExplicit {
		return nil // package inits are run lazily, one package at a time
	}
	if fn.Pkg != nil && stubPkgs[fn.Pkg.Pkg.Path()] {
		E.StubsUsed[fn.Pkg.Pkg.Path()+".*"] = true
		n := fn.Name()
		if strings.HasPrefix(n, "Fatal") || n == "Exit" {
			E.endPath("exit", "process exit via "+name+" at "+E.where(g))
		}
		if strings.HasPrefix(n, "Panic") {
			goPanic("log panic via " + name)
		}
		return zeroResult(fn)
	}
	if fn.Blocks == nil {
		// maybe the package has not been built
		if fn.Pkg != nil {
			fn.Pkg.Build()
		}
		if fn.Blocks == nil {
			E.inconclusive("external function without model: " + name)
		}
	}
	if E.traceCalls {
		E.traceLog = append(E.traceLog, traceEvent{fn: name})
	}
	E.FuncsRun[name] = true
	E.callDepth++
	if E.callDepth > 2000 {
		E.inconclusive("call depth > 2000")
	}
	old := g.top
	g.top = fr
	defer func() { g.top = old; E.callDepth-- }()

	fr.env = make(map[ssa.Value]value, 16)
	fr.block = fn.Blocks[0]
	fr.locals = make([]value, len(fn.Locals))
	for i, l := range fn.Locals {
		fr.locals[i] = zero(deref(l.Type()))
		fr.env[l] = &fr.locals[i]
	}
	for i, p := range fn.Params {
		fr.env[p] = args[i]
	}
	for i, fv := range fn.FreeVars {
		fr.env[fv] = env[i]
	}
	for fr.block != nil {
		runFrame(fr)
	}
	return fr.result
}

func runFrame(fr *frame) {
	defer func() {
		if fr.block == nil {
			return // normal return
		}
		p := recover()
		if isEngineSignal(p) {
			panic(p)
		}
		if _, ok := p.(targetPanic); !ok {
			// engine bug: annotate and re-panic
			fmt.Fprintf(os.Stderr, "ENGINE PANIC in %s at %s: %v\n", fr.fn, posOf(fr), p)
			panic(p)
		}
		fr.panicking = true
		fr.panic = p
		fr.runDefers()
		fr.block = fr.fn.Recover
		if fr.block == nil {
			// recovered, function without named results: return zero
			fr.result = zero(fr.fn.Signature.Results())
			if fr.fn.Signature.Results().Len() == 0 {
				fr.result = nil
			}
		}
	}()

	for {
		nonPhis := executePhis(fr)
		for _, instr := range nonPhis {
			E.steps++
			if E.hangLimit > 0 && E.steps > E.hangLimit {
				E.hangLimit = 0
				E.lastPanicStack = E.stack()
				E.endPath("hang", "no progress: more than the allowed number of steps without finishing (busy loop)\n at "+E.where(fr.g))
			}
			if E.steps > E.maxSteps {
				E.inconclusive(fmt.Sprintf("step budget %d exhausted (unwinding assertion)", E.maxSteps))
			}
			fr.curInstr = instr
			if visitInstr(fr, instr) == kReturn {
				return
			}
		}
	}
}

func posOf(fr *frame) string {
	if fr.curInstr == nil {
		return "?"
	}
	return E.prog.Fset.Position(fr.curInstr.Pos()).String()
}

func executePhis(fr *frame) []ssa.Instruction {
	firstNonPhi := -1
	for i, instr := range fr.block.Instrs {
		if _, ok := instr.(*ssa.Phi); !ok {
			firstNonPhi = i
			break
		}
	}
	nonPhis := fr.block.Instrs[firstNonPhi:]
	if firstNonPhi > 0 {
		phis := fr.block.Instrs[:firstNonPhi]
		predIndex := -1
		for i, p := range fr.block.Preds {
			if p == fr.prevBlock {
				predIndex = i
				break
			}
		}
		fr.phitemps = fr.phitemps[:0]
		for _, phi := range phis {
			phi := phi.(*ssa.Phi)
			fr.phitemps = append(fr.phitemps, fr.get(phi.Edges[predIndex]))
		}
		for i, phi := range phis {
			fr.env[phi.(*ssa.Phi)] = fr.phitemps[i]
		}
	}
	return nonPhis
}

func doRecover(caller *frame) value {
	if caller != nil && !caller.panicking && caller.caller != nil && caller.caller.panicking {
		caller.caller.panicking = false
		p := caller.caller.panic
		caller.caller.panic = nil
		switch p := p.(type) {
		case targetPanic:
			if p.v != nil {
				return p.v
			}
			return iface{t: runtimeErrorType(), v: mkStr(p.msg)}
		default:
			panic(fmt.Sprintf("unexpected panic type %T in target call to recover()", p))
		}
	}
	return iface{}
}

var rtErrType types.Type

func runtimeErrorType() types.Type {
	if rtErrType == nil {
		if p := E.prog.ImportedPackage("runtime"); p != nil {
			if t := p.Type("errorString"); t != nil {
				rtErrType = t.Object().Type()
			}
		}
		if rtErrType == nil {
			rtErrType = types.Typ[types.String]
		}
	}
	return rtErrType
}

const repoModule = "github.com/grafana/carbon-relay-ng"

func isRepoPkg(pkg *ssa.Package) bool {
	return pkg != nil && strings.HasPrefix(pkg.Pkg.Path(), repoModule)
}

// Globals of /repo packages are re-initialised on every path. Globals of dependency packages
// (stdlib, third party) are initialised once per process and shared between paths: they are
// assumed to be immutable after init (lookup tables, sentinel errors).
var sharedGlobals = map[*ssa.Global]*value{}
var sharedInit = map[*ssa.Package]int{}

// globalAddr returns the cell of a package-level variable, initialising its package lazily.
func (e *Engine) globalAddr(g *ssa.Global) *value {
	if p, ok := e.globals[g]; ok {
		return p
	}
	if p, ok := sharedGlobals[g]; ok && sharedInit[g.Pkg] == 2 {
		return p
	}
	pkg := g.Pkg
	e.ensureInit(pkg)
	if isRepoPkg(pkg) {
		return e.globals[g]
	}
	return sharedGlobals[g]
}

func (e *Engine) ensureInit(pkg *ssa.Package) {
	repo := isRepoPkg(pkg)
	gl, done := sharedGlobals, sharedInit
	if repo {
		gl, done = e.globals, e.initDone
	}
	if done[pkg] == 3 {
		e.inconclusive("package init failed earlier: " + pkg.Pkg.Path())
	}
	if done[pkg] != 0 {
		return
	}
	done[pkg] = 1
	for _, m := range pkg.Members {
		if g, ok := m.(*ssa.Global); ok {
			if _, ok := gl[g]; !ok {
				cell := zero(deref(g.Type()))
				gl[g] = &cell
			}
		}
	}
	path := pkg.Pkg.Path()
	if skipInit[path] {
		done[pkg] = 2
		if f, ok := initHooks[path]; ok {
			f(pkg)
		}
		return
	}
	pkg.Build()
	initFn := pkg.Func("init")
	if initFn != nil && initFn.Blocks != nil {
		saved := e.curG.top
		savedInit := e.initExplicit
		e.curG.top = nil
		e.initExplicit = initFn
		ok := false
		func() {
			defer func() {
				e.curG.top = saved
				e.initExplicit = savedInit
				if !ok && !repo {
					done[pkg] = 3
				}
			}()
			callSSA(nil, token.NoPos, initFn, nil, nil)
			ok = true
		}()
	}
	done[pkg] = 2
}
