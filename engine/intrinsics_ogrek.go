package main

// og-rek (pickle decoder) model for C13.
//
// (*ogórek.Decoder).Decode is replaced by a call-back into the harness package: the harness function
//     func verifOgrekDecodeHook(r *bufio.Reader) (interface{}, error)
// receives the decoder's reader (the bufio.Reader NewDecoder wrapped around the payload buffer) and
// decides what the decoder "returns" -- an arbitrary decoded structure built as ordinary Go values of
// the og-rek types. The hook is plain Go executed from SSA, so the result may depend on the
// (symbolic) bytes the decoder was handed. The correctness of og-rek itself is outside the claim.
//
// Also: fmt support for *math/big.Int arguments (pickle.go formats long timestamps with %d).

import (
	"go/types"
	"math/big"
)

const ogrekPath = "github.com/kisielk/og-rek"

// goValueHooks lets topic files teach goValueOf (fmt model) further dynamic types.
// A hook returns (goValue, concrete, handled).
var goValueHooks []func(v iface) (interface{}, bool, bool)

func isNamedPtr(t types.Type, pkg, name string) bool {
	p, ok := t.(*types.Pointer)
	if !ok {
		return false
	}
	n, ok := p.Elem().(*types.Named)
	if !ok || n.Obj().Pkg() == nil {
		return false
	}
	return n.Obj().Pkg().Path() == pkg && n.Obj().Name() == name
}

func init() {
	reg("(*"+ogrekPath+".Decoder).Decode", func(fr *frame, args []value) value {
		hook := E.harnessPkg.Func("verifOgrekDecodeHook")
		if hook == nil {
			E.inconclusive("og-rek Decoder.Decode: harness package defines no verifOgrekDecodeHook")
		}
		dp, ok := args[0].(*value)
		if !ok || dp == nil {
			goPanic("runtime error: invalid memory address or nil pointer dereference (nil *ogórek.Decoder)")
		}
		t := pkgType(ogrekPath, "Decoder")
		st := (*dp).(structure)
		return callValue(fr, 0, hook, []value{st[fieldIndex(t, "r")]})
	})

	goValueHooks = append(goValueHooks, func(v iface) (interface{}, bool, bool) {
		if v.t == nil || !isNamedPtr(v.t, "math/big", "Int") {
			return nil, false, false
		}
		p, ok := v.v.(*value)
		if !ok || p == nil {
			return (*big.Int)(nil), true, true
		}
		st, ok := (*p).(structure)
		if !ok || len(st) != 2 {
			return nil, false, true
		}
		neg, ok := st[0].(*Term)
		if !ok || !neg.IsConst() {
			return nil, false, true
		}
		words, _ := st[1].([]value)
		ws := make([]big.Word, len(words))
		for i, w := range words {
			t, ok := w.(*Term)
			if !ok || !t.IsConst() {
				return nil, false, true
			}
			ws[i] = big.Word(t.C)
		}
		r := new(big.Int).SetBits(ws)
		if neg.C == 1 {
			r.Neg(r)
		}
		return r, true, true
	})
}
