package main

import (
	"fmt"
	"go/types"
	"strings"
)

// og-rek's pickle encoder as an opaque, deterministic encoding.
//
// (*ogórek.Encoder).Encode walks its argument by reflection and takes math.Float64bits of the value;
// neither runs in the engine. The intrinsic writes to the encoder's writer a payload whose bytes are
// uninterpreted functions of (shape of the structure, leaf values), with og-rek's own collapsing of
// kinds: every integer kind is the int64 value, every float kind the float64 value, strings and
// []byte are byte strings, ogórek.Tuple is a tuple, every other slice/array a list, nil is None.
// Equal structures give equal payloads; different shapes give unrelated payloads. The payload length
// is 8 + the total length of the strings (arbitrary but input dependent). What the real encoder emits
// for the structure - and whether Python decodes it - is outside the engine's claim.

type pickleShape struct {
	sb     strings.Builder
	leaves []*Term
	strlen int
}

func (p *pickleShape) walk(v value, t types.Type) {
	if it, ok := v.(iface); ok {
		if it.t == nil {
			p.sb.WriteString("N")
			return
		}
		p.walk(it.v, it.t)
		return
	}
	switch u := t.Underlying().(type) {
	case *types.Basic:
		switch {
		case u.Info()&types.IsBoolean != 0:
			p.sb.WriteString("b")
			p.leaves = append(p.leaves, Ite(v.(*Term), ConstBV(8, 1), ConstBV(8, 0)))
		case u.Info()&types.IsInteger != 0:
			x := v.(*Term)
			if x.S.W < 64 {
				if isSigned(u) {
					x = SExt(x, 64)
				} else {
					x = ZExt(x, 64)
				}
			}
			p.sb.WriteString("i")
			p.leaves = append(p.leaves, x)
		case u.Kind() == types.Float64 || u.Kind() == types.Float32:
			x := v.(*Term)
			if u.Kind() == types.Float32 {
				E.inconclusive("pickle stub: float32 leaf")
			}
			p.sb.WriteString("f")
			p.leaves = append(p.leaves, x)
		case u.Info()&types.IsString != 0:
			p.bytes(v.(Str).b)
		default:
			E.inconclusive("pickle stub: unsupported basic type " + t.String())
		}
	case *types.Slice:
		if b, ok := u.Elem().Underlying().(*types.Basic); ok && b.Kind() == types.Uint8 {
			p.bytes(bytesToTerms(v))
			return
		}
		open := "L("
		if n, ok := t.(*types.Named); ok && n.Obj().Name() == "Tuple" && n.Obj().Pkg() != nil && strings.HasSuffix(n.Obj().Pkg().Path(), "kisielk/og-rek") {
			open = "T("
		}
		p.sb.WriteString(open)
		elems, _ := v.([]value)
		for _, e := range elems {
			p.walk(e, u.Elem())
			p.sb.WriteString(",")
		}
		p.sb.WriteString(")")
	case *types.Pointer:
		pv, _ := v.(*value)
		if pv == nil {
			p.sb.WriteString("N")
			return
		}
		p.walk(*pv, u.Elem())
	default:
		E.inconclusive("pickle stub: unsupported type " + t.String())
	}
}

func (p *pickleShape) bytes(b []*Term) {
	fmt.Fprintf(&p.sb, "s%d", len(b))
	p.leaves = append(p.leaves, packBytes(b)...)
	p.strlen += len(b)
}

func init() {
	reg("(*github.com/kisielk/og-rek.Encoder).Encode", func(fr *frame, args []value) value {
		E.StubsUsed["(*og-rek.Encoder).Encode (opaque payload = UF(shape, leaves))"] = true
		enc := *(args[0].(*value))
		w := enc.(structure)[0].(iface)
		var p pickleShape
		p.walk(args[1], nil)
		shape := sanitize(p.sb.String())
		n := 8 + p.strlen
		if len(p.leaves) == 0 {
			p.leaves = []*Term{ConstBV(8, 0)}
		}
		out := make([]value, n)
		for k := range out {
			out[k] = UF(fmt.Sprintf("uf_pickle_%s_%d", shape, k), BV(8), p.leaves...)
		}
		res := writeTo(fr, w, out).(tuple)
		return res[1]
	})
}
