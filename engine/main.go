package main

import (
	"encoding/json"
	"flag"
	"fmt"
	"go/parser"
	"go/token"
	"os"
	"path/filepath"
	"sort"
	"strings"
	"time"

	"golang.org/x/tools/go/packages"
	"golang.org/x/tools/go/ssa"
	"golang.org/x/tools/go/ssa/ssautil"
)

type RunSpec struct {
	ID      string            `json:"id"`      // obligation id
	Harness string            `json:"harness"` // function name in the harness package
	Params  map[string]string `json:"params,omitempty"`
	Expect  string            `json:"expect,omitempty"` // "" = all asserts hold; "reach" = assertion labelled reach must be violated (vacuity witness)
}

type RunResult struct {
	Spec         RunSpec               `json:"spec"`
	Paths        int                   `json:"paths"`
	PathsByKind  map[string]int        `json:"paths_by_kind"`
	Violations   []*Violation          `json:"violations"`
	Inconclusive map[string]int        `json:"inconclusive"`
	Covers       map[string]int        `json:"covers"`
	Asserts      map[string]int        `json:"asserts"`
	Funcs        []string              `json:"functions_encoded"`
	Stubs        []string              `json:"stubs_used"`
	Queries      int                   `json:"solver_queries"`
	SatQ         int                   `json:"sat"`
	UnsatQ       int                   `json:"unsat"`
	UnknownQ     int                   `json:"unknown"`
	SolverTime   float64               `json:"solver_time_s"`
	Wall         float64               `json:"wall_s"`
	RegexEnc     int                   `json:"regex_encodings"`
	Witness      map[string]uint64     `json:"witness,omitempty"`
	Error        string                `json:"error,omitempty"`
}

func main() {
	repo := flag.String("repo", "/repo", "repository root")
	pkgPath := flag.String("pkg", "", "import path of the package under test")
	hdir := flag.String("hdir", "", "directory with harness files for that package")
	rtFile := flag.String("rt", "", "runtime template file")
	specFile := flag.String("specs", "", "JSON file with a list of RunSpec")
	harness := flag.String("harness", "", "single harness (alternative to -specs)")
	out := flag.String("out", "", "result JSON")
	solverKind := flag.String("solver", "z3-new", "z3 | z3-new | cvc5 | cvc5-int")
	solver2 := flag.String("solver2", "", "fallback solver for unknown assertion queries")
	timeout := flag.Int("timeout", 60000, "per-query timeout ms")
	maxPaths := flag.Int("maxpaths", 200000, "path bound")
	maxDepth := flag.Int("maxdepth", 400, "decision depth bound")
	maxSteps := flag.Int("maxsteps", 20000000, "instruction bound per path")
	budget := flag.Int("budget", 3600, "wall budget per obligation (s)")
	verbose := flag.Bool("v", false, "verbose")
	smtlog := flag.String("smtlog", "", "log solver traffic")
	tags := flag.String("tags", "verif", "build tags")
	flag.Parse()

	t0 := time.Now()
	var specs []RunSpec
	if *specFile != "" {
		b, err := os.ReadFile(*specFile)
		if err != nil {
			fatal(err)
		}
		if err := json.Unmarshal(b, &specs); err != nil {
			fatal(err)
		}
	} else {
		specs = []RunSpec{{ID: *harness, Harness: *harness}}
	}

	prog, hpkg, err := loadProgram(*repo, *pkgPath, *hdir, *rtFile, *tags)
	if err != nil {
		fatal(err)
	}
	if *verbose {
		fmt.Fprintf(os.Stderr, "loaded in %.1fs\n", time.Since(t0).Seconds())
	}

	var results []RunResult
	for _, sp := range specs {
		res := runSpec(prog, hpkg, sp, *solverKind, *solver2, *timeout, *maxPaths, *maxDepth, *maxSteps, *budget, *verbose, *smtlog)
		results = append(results, res)
		if *verbose {
			fmt.Fprintf(os.Stderr, "%s: paths=%d %v violations=%d inconclusive=%v queries=%d wall=%.1fs\n", sp.ID, res.Paths, res.PathsByKind, len(res.Violations), res.Inconclusive, res.Queries, res.Wall)
		}
	}
	if *verbose {
		type kv struct {
			k string
			v int
		}
		var l []kv
		for k, v := range DecisionSites {
			l = append(l, kv{k, v})
		}
		sort.Slice(l, func(i, j int) bool { return l[i].v > l[j].v })
		for i, x := range l {
			if i > 25 {
				break
			}
			fmt.Fprintf(os.Stderr, "decision site %6d %s\n", x.v, x.k)
		}
	}
	b, _ := json.MarshalIndent(results, "", " ")
	if *out != "" {
		os.WriteFile(*out, b, 0644)
	} else {
		os.Stdout.Write(b)
		fmt.Println()
	}
}

func fatal(err error) {
	fmt.Fprintln(os.Stderr, "gosym:", err)
	os.Exit(3)
}

func loadProgram(repo, pkgPath, hdir, rtFile, tags string) (*ssa.Program, *ssa.Package, error) {
	// the package directory
	const modPath = "github.com/grafana/carbon-relay-ng"
	rel := strings.TrimPrefix(strings.TrimPrefix(pkgPath, modPath), "/")
	pkgDir := filepath.Join(repo, rel)
	overlay := map[string][]byte{}
	pkgName := ""
	files, _ := filepath.Glob(filepath.Join(hdir, "*.go"))
	sort.Strings(files)
	for _, f := range files {
		b, err := os.ReadFile(f)
		if err != nil {
			return nil, nil, err
		}
		if pkgName == "" {
			fs := token.NewFileSet()
			af, err := parser.ParseFile(fs, f, b, parser.PackageClauseOnly)
			if err != nil {
				return nil, nil, err
			}
			pkgName = af.Name.Name
		}
		overlay[filepath.Join(pkgDir, "zz_verif_"+filepath.Base(f))] = b
	}
	if pkgName == "" {
		return nil, nil, fmt.Errorf("no harness files in %s", hdir)
	}
	if rtFile != "" {
		b, err := os.ReadFile(rtFile)
		if err != nil {
			return nil, nil, err
		}
		s := strings.Replace(string(b), "package PKGNAME", "package "+pkgName, 1)
		overlay[filepath.Join(pkgDir, "zz_verif_rt.go")] = []byte(s)
	}
	if err := addExtraOverlays(repo, overlay); err != nil { // -hdir2 (overlay_extra.go)
		return nil, nil, err
	}
	// A harness file that no longer type-checks against the current tree (it names an internal the tree changed)
	// is left out, with everything in it reported as missing, and the rest of the package's harnesses still run:
	// up to 4 rounds, because leaving a file out can take a helper away from another one.
	var pkgs []*packages.Package
	for round := 0; ; round++ {
		cfg := &packages.Config{
			Mode:       packages.LoadAllSyntax,
			Dir:        repo,
			Overlay:    overlay,
			BuildFlags: []string{"-tags=" + tags, "-mod=mod"},
			Env:        append(os.Environ(), "GOFLAGS=-mod=mod", "GOPROXY=off", "GOSUMDB=off", "GOTOOLCHAIN=local"),
		}
		var err error
		pkgs, err = packages.Load(cfg, pkgPath)
		if err != nil {
			return nil, nil, err
		}
		nerr := 0
		bad := map[string]bool{}
		other := false
		packages.Visit(pkgs, nil, func(p *packages.Package) {
			for _, e := range p.Errors {
				if strings.HasPrefix(p.PkgPath, modPath) {
					fmt.Fprintln(os.Stderr, "load error:", e)
					nerr++
					file := e.Pos
					if i := strings.Index(file, ".go:"); i >= 0 {
						file = file[:i+3]
					}
					base := filepath.Base(file)
					if _, isOverlay := overlay[file]; isOverlay && strings.HasPrefix(base, "zz_verif_") && base != "zz_verif_rt.go" {
						bad[file] = true
					} else {
						other = true
					}
				}
			}
		})
		if nerr == 0 {
			break
		}
		if other || len(bad) == 0 || round >= 4 {
			return nil, nil, fmt.Errorf("%d load errors (harness does not build against the current tree)", nerr)
		}
		for f := range bad {
			fmt.Fprintln(os.Stderr, "excluded harness file (does not build against the current tree):", filepath.Base(f))
			delete(overlay, f)
		}
	}
	prog, spkgs := ssautil.AllPackages(pkgs, ssa.InstantiateGenerics|ssa.SanityCheckFunctions&0)
	if len(spkgs) == 0 || spkgs[0] == nil {
		return nil, nil, fmt.Errorf("no ssa package")
	}
	spkgs[0].Build()
	return prog, spkgs[0], nil
}

func runSpec(prog *ssa.Program, hpkg *ssa.Package, sp RunSpec, solverKind, solver2 string, timeout, maxPaths, maxDepth, maxSteps, budget int, verbose bool, smtlog string) RunResult {
	t0 := time.Now()
	res := RunResult{Spec: sp}
	fn := hpkg.Func(sp.Harness)
	if fn == nil {
		res.Error = "no harness function " + sp.Harness
		return res
	}
	s, err := NewSolver(solverKind, timeout, smtlog)
	if err != nil {
		res.Error = err.Error()
		return res
	}
	defer s.Close()
	E = &Engine{
		prog: prog, harnessPkg: hpkg, solver: s,
		maxDepth: maxDepth, maxSteps: maxSteps, maxPaths: maxPaths,
		deadline:     t0.Add(time.Duration(budget) * time.Second),
		PathsByKind:  map[string]int{},
		Violations:   map[string]*Violation{},
		Inconclusive: map[string]int{},
		Covers:       map[string]int{},
		Asserts:      map[string]int{},
		FuncsRun:     map[string]bool{},
		StubsUsed:    map[string]bool{},
		verbose:      verbose,
		params:       sp.Params,
		reportPanics: true,
	}
	if solver2 != "" {
		s2, err := NewSolver(solver2, timeout, "")
		if err == nil {
			E.solver2 = s2
			defer s2.Close()
		}
	}
	E.Explore(fn)
	res.Paths = E.Paths
	res.PathsByKind = E.PathsByKind
	var labels []string
	for l := range E.Violations {
		labels = append(labels, l)
	}
	sort.Strings(labels)
	for _, l := range labels {
		res.Violations = append(res.Violations, E.Violations[l])
	}
	res.Inconclusive = E.Inconclusive
	if s.errSeen != "" {
		res.Inconclusive["solver error: "+s.errSeen]++
	}
	res.Covers = E.Covers
	res.Asserts = E.Asserts
	for f := range E.FuncsRun {
		res.Funcs = append(res.Funcs, f)
	}
	sort.Strings(res.Funcs)
	for f := range E.StubsUsed {
		res.Stubs = append(res.Stubs, f)
	}
	sort.Strings(res.Stubs)
	res.Queries = s.Queries
	res.SatQ, res.UnsatQ, res.UnknownQ = s.SatQ, s.UnsatQ, s.UnknownQ
	res.SolverTime = s.Time.Seconds()
	res.RegexEnc = E.regexEncodings
	res.Witness = E.Witness
	res.Wall = time.Since(t0).Seconds()
	return res
}
