package main

// Engine side of verifLineFloat / verifLineUint (property C10): recover the symbolic term that
// fmt.Sprintf formatted into a whitespace-separated field of an output line. symSprintf renders a
// symbolic non-string argument as the marker `<%f:t_123>` (term id) or `<%d:v_name__0>` (variable);
// a concrete field is parsed.

import (
	"math"
	"strconv"
	"strings"
)

func lineField(a []value) (string, bool) {
	bs, ok := concBytes(a[0])
	if !ok {
		return "", false
	}
	idx := int(concInt(a[1], true))
	fs := strings.Fields(string(bs))
	if idx < 0 || idx >= len(fs) {
		return "", false
	}
	return fs[idx], true
}

// markerTerm resolves `<spec:ref>` to the term ref names.
func markerTerm(f string) *Term {
	if !strings.HasPrefix(f, "<%") || !strings.HasSuffix(f, ">") {
		return nil
	}
	i := strings.IndexByte(f, ':')
	if i < 0 {
		return nil
	}
	ref := f[i+1 : len(f)-1]
	if strings.HasPrefix(ref, "t_") {
		if id, err := strconv.Atoi(ref[2:]); err == nil && id >= 0 && id < len(TS.all) {
			return TS.all[id]
		}
	}
	for _, v := range TS.vars {
		if v.Name == ref {
			return v
		}
	}
	return nil
}

func init() {
	verifFuncs["verifLineFloat"] = func(fr *frame, a []value) value {
		f, ok := lineField(a)
		if !ok {
			E.inconclusive("verifLineFloat: line not concrete or field out of range")
		}
		if t := markerTerm(f); t != nil {
			switch {
			case t.S == FP64:
				return t
			case t.S == FP32:
				return FToFP(t, 64)
			}
			E.inconclusive("verifLineFloat: field holds a non-float term")
		}
		x, err := strconv.ParseFloat(f, 64)
		if err != nil {
			E.inconclusive("verifLineFloat: cannot parse field " + f)
		}
		return ConstFP(64, x)
	}
	verifFuncs["verifLineUint"] = func(fr *frame, a []value) value {
		f, ok := lineField(a)
		if !ok {
			E.inconclusive("verifLineUint: line not concrete or field out of range")
		}
		if t := markerTerm(f); t != nil {
			if t.S.K != KBV {
				E.inconclusive("verifLineUint: field holds a non-integer term")
			}
			switch {
			case t.S.W == 64:
				return t
			case t.S.W < 64:
				return ZExt(t, 64)
			}
			E.inconclusive("verifLineUint: field wider than 64 bits")
		}
		x, err := strconv.ParseUint(f, 10, 64)
		if err != nil {
			E.inconclusive("verifLineUint: cannot parse field " + f)
		}
		return ConstBV(64, x)
	}
	// verifFloatSame(x, y): x == y as float64, or both NaN. The same (hash-consed) term on both sides
	// is decided without a solver query.
	verifFuncs["verifFloatSame"] = func(fr *frame, a []value) value {
		x, y := a[0].(*Term), a[1].(*Term)
		if x == y {
			return True
		}
		if x.IsConst() && y.IsConst() {
			return ConstBool(x.Float() == y.Float() || (math.IsNaN(x.Float()) && math.IsNaN(y.Float())))
		}
		return Or(FEq(x, y), And(FIsNaN(x), FIsNaN(y)))
	}
}
