package main

// Token-level model of the toki lexer for the admin-command parser (C14): after verifTokenStream(kinds, values)
// the next (*toki.Scanner).Next / Peek calls hand out exactly those tokens (kind = a term, possibly symbolic;
// value = the given bytes), then EOF. The parser's control flow is explored over token SEQUENCES instead of
// over command text; the harness's native twin renders the same tokens as text and runs the real lexer.

type tokStream struct {
	kinds  []*Term
	values [][]value
	pos    int
}

func tokiResult(kind *Term, val []value) value {
	t := pkgType("github.com/taylorchu/toki", "Result")
	st := zero(t).(structure)
	st[fieldIndex(t, "Token")] = kind
	st[fieldIndex(t, "Value")] = val
	cell := value(st)
	return &cell
}

func init() {
	verifFuncs["verifTokenStream"] = func(fr *frame, a []value) value {
		ks, _ := a[0].([]value)
		vs, _ := a[1].([]value)
		ts := &tokStream{}
		for i := range ks {
			ts.kinds = append(ts.kinds, ks[i].(*Term))
			v, _ := vs[i].([]value)
			ts.values = append(ts.values, v)
		}
		E.tokSt = ts
		E.StubsUsed["toki.Scanner.Next/Peek (token stream given by the harness instead of lexing text)"] = true
		return nil
	}
	next := func(consume bool) intrinsic {
		return func(fr *frame, args []value) value {
			ts := E.tokSt
			if ts == nil {
				return fallThroughT{} // not in token-stream mode: run the real lexer
			}
			if ts.pos >= len(ts.kinds) {
				return tokiResult(ConstBV(32, 1<<32-1), []value(nil)) // toki.EOF
			}
			r := tokiResult(ts.kinds[ts.pos], append([]value(nil), ts.values[ts.pos]...))
			if consume {
				ts.pos++
			}
			return r
		}
	}
	regFallthrough("(*github.com/taylorchu/toki.Scanner).Next", next(true))
	regFallthrough("(*github.com/taylorchu/toki.Scanner).Peek", next(false))
}
