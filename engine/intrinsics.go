package main

import (
	"fmt"
	"go/types"
	"math"
	"regexp"
	"strconv"
	"strings"

	"golang.org/x/tools/go/ssa"
)

type intrinsic func(fr *frame, args []value) value

var intrinsics = map[string]intrinsic{}

// packages whose init is not executed (globals stay zero, initHooks may patch)
var skipInit = map[string]bool{
	"os": true, "syscall": true, "runtime": true, "net": true, "internal/poll": true,
	"github.com/sirupsen/logrus": true, "log": true, "crypto/md5": true, "reflect": true,
	"internal/godebug": true, "internal/cpu": true, "sync": true, "sync/atomic": true, "math/rand": true,
	"expvar": true, "net/http": true, "crypto/tls": true, "crypto/x509": true, "fmt": true,
	"github.com/Dieterbe/go-metrics": true, "internal/bytealg": true, "regexp": true,
	"encoding/json": true, "flag": true, "testing": true, "os/signal": true,
}

var initHooks = map[string]func(pkg *ssa.Package){}

// packages whose functions are replaced by "return zero" (logging etc.)
var stubPkgs = map[string]bool{
	"github.com/sirupsen/logrus": true,
	"log":                        true,
}

type traceEvent struct {
	fn string
}

func reg(name string, f intrinsic) { intrinsics[name] = f }

// fallthroughs: models that may decline (return fallThroughT{}), in which case the real function body runs
type fallThroughT struct{}

var fallthroughs = map[string]intrinsic{}

func regFallthrough(name string, f intrinsic) { fallthroughs[name] = f }

func zeroResult(fn *ssa.Function) value {
	res := fn.Signature.Results()
	if res.Len() == 0 {
		return nil
	}
	return zero(res)
}

func okTuple(v value, ok bool) value { return tuple{v, ConstBool(ok)} }

func nilError() value { return iface{} }

var errorStringType types.Type

// mkError builds an error value of type *errors.errorString.
func mkError(msg string) value {
	p := E.prog.ImportedPackage("errors")
	if p == nil {
		E.inconclusive("package errors not loaded")
	}
	t := p.Type("errorString").Object().Type()
	s := value(structure{mkStr(msg)})
	return iface{t: types.NewPointer(t), v: &s}
}

// sentinel error identity: package-level error variables
func globalValue(pkgPath, name string) value {
	p := E.prog.ImportedPackage(pkgPath)
	if p == nil {
		E.inconclusive("package " + pkgPath + " not loaded")
	}
	g, ok := p.Members[name].(*ssa.Global)
	if !ok {
		E.inconclusive("no global " + pkgPath + "." + name)
	}
	return *E.globalAddr(g)
}

// ---- symbolic byte-search primitives

func symIndexByte(s []*Term, c *Term) *Term {
	r := ConstBV(64, ^uint64(0))
	for i := len(s) - 1; i >= 0; i-- {
		r = Ite(Eq(s[i], c), mkI(i), r)
	}
	return r
}

func symLastIndexByte(s []*Term, c *Term) *Term {
	r := ConstBV(64, ^uint64(0))
	for i := 0; i < len(s); i++ {
		r = Ite(Eq(s[i], c), mkI(i), r)
	}
	return r
}

func matchAt(s, sep []*Term, i int) *Term {
	m := True
	for j := range sep {
		m = And(m, Eq(s[i+j], sep[j]))
		if m.IsFalse() {
			break
		}
	}
	return m
}

func symIndex(s, sep []*Term) *Term {
	if len(sep) == 0 {
		return mkI(0)
	}
	r := ConstBV(64, ^uint64(0))
	for i := len(s) - len(sep); i >= 0; i-- {
		r = Ite(matchAt(s, sep, i), mkI(i), r)
	}
	return r
}

func symLastIndex(s, sep []*Term) *Term {
	if len(sep) == 0 {
		return mkI(len(s))
	}
	r := ConstBV(64, ^uint64(0))
	for i := 0; i+len(sep) <= len(s); i++ {
		r = Ite(matchAt(s, sep, i), mkI(i), r)
	}
	return r
}

func symCountByte(s []*Term, c *Term) *Term {
	r := mkI(0)
	for _, b := range s {
		r = Add(r, Ite(Eq(b, c), mkI(1), mkI(0)))
	}
	return r
}

func symCompare(a, b []*Term) *Term {
	n := len(a)
	if len(b) < n {
		n = len(b)
	}
	var r *Term
	switch {
	case len(a) < len(b):
		r = ConstBV(64, ^uint64(0))
	case len(a) > len(b):
		r = mkI(1)
	default:
		r = mkI(0)
	}
	for i := n - 1; i >= 0; i-- {
		r = Ite(Eq(a[i], b[i]), r, Ite(Ult(a[i], b[i]), ConstBV(64, ^uint64(0)), mkI(1)))
	}
	return r
}

func init() {
	// ---- bytes / strings / bytealg
	idxByte := func(fr *frame, args []value) value {
		return symIndexByte(bytesToTerms(args[0]), args[1].(*Term))
	}
	reg("bytes.IndexByte", idxByte)
	reg("strings.IndexByte", idxByte)
	reg("internal/bytealg.IndexByte", idxByte)
	reg("internal/bytealg.IndexByteString", idxByte)
	lastIdxByte := func(fr *frame, args []value) value {
		return symLastIndexByte(bytesToTerms(args[0]), args[1].(*Term))
	}
	reg("bytes.LastIndexByte", lastIdxByte)
	reg("strings.LastIndexByte", lastIdxByte)
	reg("internal/bytealg.LastIndexByte", lastIdxByte)
	reg("internal/bytealg.LastIndexByteString", lastIdxByte)
	idx := func(fr *frame, args []value) value {
		return symIndex(bytesToTerms(args[0]), bytesToTerms(args[1]))
	}
	reg("bytes.Index", idx)
	reg("strings.Index", idx)
	reg("internal/bytealg.Index", idx)
	reg("internal/bytealg.IndexString", idx)
	lastIdx := func(fr *frame, args []value) value {
		return symLastIndex(bytesToTerms(args[0]), bytesToTerms(args[1]))
	}
	reg("bytes.LastIndex", lastIdx)
	reg("strings.LastIndex", lastIdx)
	contains := func(fr *frame, args []value) value {
		return Not(Eq(symIndex(bytesToTerms(args[0]), bytesToTerms(args[1])), ConstBV(64, ^uint64(0))))
	}
	reg("bytes.Contains", contains)
	reg("strings.Contains", contains)
	cnt := func(fr *frame, args []value) value {
		return symCountByte(bytesToTerms(args[0]), args[1].(*Term))
	}
	reg("internal/bytealg.Count", cnt)
	reg("internal/bytealg.CountString", cnt)
	cmpf := func(fr *frame, args []value) value {
		return symCompare(bytesToTerms(args[0]), bytesToTerms(args[1]))
	}
	reg("bytes.Compare", cmpf)
	reg("strings.Compare", cmpf)
	reg("internal/bytealg.Compare", cmpf)
	reg("internal/bytealg.CompareString", cmpf)
	reg("internal/bytealg.Equal", func(fr *frame, args []value) value {
		a, b := bytesToTerms(args[0]), bytesToTerms(args[1])
		return equals(nil, Str{a}, Str{b})
	})
	reg("bytes.Equal", func(fr *frame, args []value) value {
		a, b := bytesToTerms(args[0]), bytesToTerms(args[1])
		return equals(nil, Str{a}, Str{b})
	})
	reg("internal/bytealg.MakeNoZero", func(fr *frame, args []value) value {
		n := concInt(args[0], true)
		r := make([]value, n)
		for i := range r {
			r[i] = byteConsts[0]
		}
		return r
	})
	reg("internal/stringslite.Clone", func(fr *frame, args []value) value { return args[0] })
	reg("strings.Clone", func(fr *frame, args []value) value { return args[0] })
	reg("unsafe.String", func(fr *frame, args []value) value { panic("unsafe.String") })
	reg("strings.(*Builder).String", nil)
	delete(intrinsics, "strings.(*Builder).String")
	// (*strings.Builder).String uses unsafe; model Builder through its buf field
	reg("(*strings.Builder).String", func(fr *frame, args []value) value {
		b := (*args[0].(*value)).(structure)
		buf, _ := b[1].([]value)
		return Str{bytesToTerms(append([]value(nil), buf...))}
	})
	reg("(*strings.Builder).copyCheck", func(fr *frame, args []value) value { return nil })
	reg("(*strings.Builder).grow", func(fr *frame, args []value) value {
		b := (*args[0].(*value)).(structure)
		buf, _ := b[1].([]value)
		n := int(concInt(args[1], true))
		nb := make([]value, len(buf), 2*cap(buf)+n)
		copy(nb, buf)
		b[1] = nb
		return nil
	})

	// ---- sync
	reg("(*sync.Mutex).Lock", func(fr *frame, args []value) value { E.lock(fr, args[0].(*value), true); return nil })
	reg("(*sync.Mutex).Unlock", func(fr *frame, args []value) value { E.unlock(fr, args[0].(*value), true); return nil })
	reg("(*sync.Mutex).TryLock", func(fr *frame, args []value) value {
		ls := E.lockState(args[0].(*value))
		if ls.writer || ls.readers > 0 {
			return False
		}
		ls.writer = true
		return True
	})
	reg("(*sync.RWMutex).Lock", func(fr *frame, args []value) value { E.lock(fr, args[0].(*value), true); return nil })
	reg("(*sync.RWMutex).Unlock", func(fr *frame, args []value) value { E.unlock(fr, args[0].(*value), true); return nil })
	reg("(*sync.RWMutex).RLock", func(fr *frame, args []value) value { E.lock(fr, args[0].(*value), false); return nil })
	reg("(*sync.RWMutex).RUnlock", func(fr *frame, args []value) value { E.unlock(fr, args[0].(*value), false); return nil })
	reg("(*sync.WaitGroup).Add", func(fr *frame, args []value) value {
		ls := E.lockState(args[0].(*value))
		ls.readers += int(concInt(args[1], true))
		if ls.readers < 0 {
			goPanic("sync: negative WaitGroup counter")
		}
		return nil
	})
	reg("(*sync.WaitGroup).Done", func(fr *frame, args []value) value {
		ls := E.lockState(args[0].(*value))
		ls.readers--
		if ls.readers < 0 {
			goPanic("sync: negative WaitGroup counter")
		}
		return nil
	})
	reg("(*sync.WaitGroup).Wait", func(fr *frame, args []value) value {
		ls := E.lockState(args[0].(*value))
		E.blockUntil(fr.g, "WaitGroup.Wait at "+E.where(fr.g), func() bool { return ls.readers == 0 })
		return nil
	})
	reg("(*sync.Once).Do", func(fr *frame, args []value) value {
		ls := E.lockState(args[0].(*value))
		if ls.writer {
			return nil
		}
		ls.writer = true
		callValue(fr, 0, args[1], nil)
		return nil
	})
	reg("(*sync.Pool).Get", func(fr *frame, args []value) value {
		// an object that was Put is handed out again by the next Get (most recent first), as the real pool does
		// for a Get on the same P: recycling is what a pool is for, so code that keeps using an object after
		// Put meets its next user here
		if q := E.pools[args[0].(*value)]; len(q) > 0 {
			v := q[len(q)-1]
			E.pools[args[0].(*value)] = q[:len(q)-1]
			return v
		}
		p := (*args[0].(*value)).(structure)
		// last field is New func() any
		newf := p[len(p)-1]
		if isNilFunc(newf) {
			return iface{}
		}
		return callValue(fr, 0, newf, nil)
	})
	reg("(*sync.Pool).Put", func(fr *frame, args []value) value {
		if E.pools == nil {
			E.pools = map[*value][]value{}
		}
		E.pools[args[0].(*value)] = append(E.pools[args[0].(*value)], args[1])
		return nil
	})

	// ---- sync/atomic
	atomicLoad := func(fr *frame, args []value) value {
		E.preemptPoint(fr.g, "atomic load")
		return *args[0].(*value)
	}
	atomicStore := func(fr *frame, args []value) value {
		E.preemptPoint(fr.g, "atomic store")
		*args[0].(*value) = args[1]
		return nil
	}
	atomicAdd := func(fr *frame, args []value) value {
		E.preemptPoint(fr.g, "atomic add")
		p := args[0].(*value)
		*p = Add((*p).(*Term), args[1].(*Term))
		return *p
	}
	atomicSwap := func(fr *frame, args []value) value {
		E.preemptPoint(fr.g, "atomic swap")
		p := args[0].(*value)
		old := *p
		*p = args[1]
		return old
	}
	atomicCAS := func(fr *frame, args []value) value {
		E.preemptPoint(fr.g, "atomic compare-and-swap")
		p := args[0].(*value)
		var eq *Term
		switch o := (*p).(type) {
		case *Term:
			eq = Eq(o, args[1].(*Term))
		default:
			eq = equals(nil, o, args[1])
		}
		if E.branch(eq) {
			*p = args[2]
			return True
		}
		return False
	}
	for _, t := range []string{"Int32", "Int64", "Uint32", "Uint64", "Uintptr", "Pointer"} {
		reg("sync/atomic.Load"+t, atomicLoad)
		reg("sync/atomic.Store"+t, atomicStore)
		reg("sync/atomic.Swap"+t, atomicSwap)
		reg("sync/atomic.CompareAndSwap"+t, atomicCAS)
		if t != "Pointer" {
			reg("sync/atomic.Add"+t, atomicAdd)
		}
	}
	reg("(*sync/atomic.Value).Load", func(fr *frame, args []value) value {
		E.preemptPoint(fr.g, "atomic.Value.Load")
		s := (*args[0].(*value)).(structure)
		return s[0]
	})
	reg("(*sync/atomic.Value).Store", func(fr *frame, args []value) value {
		E.preemptPoint(fr.g, "atomic.Value.Store")
		s := (*args[0].(*value)).(structure)
		if args[1].(iface).t == nil {
			goPanic("sync/atomic: store of nil value into Value")
		}
		if old, ok := s[0].(iface); ok && old.t != nil && !types.Identical(old.t, args[1].(iface).t) {
			goPanic("sync/atomic: store of inconsistently typed value into Value")
		}
		s[0] = args[1]
		if E.traceCalls {
			E.traceLog = append(E.traceLog, traceEvent{fn: "atomic.Value.Store"})
		}
		return nil
	})

	// ---- os / process
	reg("os.Exit", func(fr *frame, args []value) value {
		E.endPath("exit", "os.Exit called at "+E.where(fr.g))
		return nil
	})
	reg("os.Hostname", func(fr *frame, args []value) value { return tuple{mkStr("verifhost"), nilError()} })
	reg("os.Getenv", func(fr *frame, args []value) value {
		return E.envLookup(args[0])
	})
	reg("runtime.Gosched", func(fr *frame, args []value) value {
		fr.g.state = gRunnable
		E.yield(fr.g)
		return nil
	})
	reg("runtime.GC", func(fr *frame, args []value) value { return nil })
	reg("runtime.KeepAlive", func(fr *frame, args []value) value { return nil })
	reg("runtime.SetFinalizer", func(fr *frame, args []value) value { return nil })

	// ---- math
	reg("math.Float64bits", func(fr *frame, args []value) value {
		t := args[0].(*Term)
		if t.IsConst() {
			return ConstBV(64, t.C)
		}
		E.inconclusive("math.Float64bits on symbolic value")
		return nil
	})
	reg("math.Float64frombits", func(fr *frame, args []value) value { return FFromBits(args[0].(*Term)) })
	reg("math.Float32frombits", func(fr *frame, args []value) value { return FFromBits(args[0].(*Term)) })
	reg("math.Sqrt", func(fr *frame, args []value) value { return FSqrt(args[0].(*Term)) })
	reg("math.sqrt", func(fr *frame, args []value) value { return FSqrt(args[0].(*Term)) })
	reg("math.Abs", func(fr *frame, args []value) value { return FAbs(args[0].(*Term)) })
	reg("math.IsNaN", func(fr *frame, args []value) value { return FIsNaN(args[0].(*Term)) })
	reg("math.Pow", func(fr *frame, args []value) value {
		a, b := args[0].(*Term), args[1].(*Term)
		if a.IsConst() && b.IsConst() {
			return ConstFP(64, math.Pow(a.Float(), b.Float()))
		}
		if b.IsConst() && b.Float() == 2 {
			return FMul(a, a)
		}
		return UF("uf_pow", FP64, a, b)
	})
	reg("math.Floor", func(fr *frame, args []value) value {
		a := args[0].(*Term)
		if a.IsConst() {
			return ConstFP(64, math.Floor(a.Float()))
		}
		return UF("uf_floor", FP64, a)
	})
	reg("math.Ceil", func(fr *frame, args []value) value {
		a := args[0].(*Term)
		if a.IsConst() {
			return ConstFP(64, math.Ceil(a.Float()))
		}
		return UF("uf_ceil", FP64, a)
	})

	// ---- strconv (concrete fast paths; symbolic handled from SSA where possible)
	reg("strconv.Itoa", func(fr *frame, args []value) value {
		t := args[0].(*Term)
		if t.IsConst() {
			return mkStr(strconv.FormatInt(t.Int64(), 10))
		}
		return opaqueStr("itoa", t)
	})
	reg("strconv.FormatInt", func(fr *frame, args []value) value {
		t := args[0].(*Term)
		b := args[1].(*Term)
		if t.IsConst() && b.IsConst() {
			return mkStr(strconv.FormatInt(t.Int64(), int(b.Int64())))
		}
		return opaqueStr("formatint", t)
	})
	reg("strconv.Quote", func(fr *frame, args []value) value {
		if s, ok := args[0].(Str).concrete(); ok {
			return mkStr(strconv.Quote(s))
		}
		return args[0]
	})
	reg("strconv.ParseFloat", func(fr *frame, args []value) value {
		s := args[0].(Str)
		if cs, ok := s.concrete(); ok {
			f, err := strconv.ParseFloat(cs, int(concInt(args[1], true)))
			if err != nil {
				return tuple{ConstFP(64, f), mkError(err.Error())}
			}
			return tuple{ConstFP(64, f), nilError()}
		}
		// uninterpreted: validity and value are functions of the bytes
		okT, val := ufParseFloat(s.b)
		// strings consisting of 1..15 decimal digits are valid and have an exactly known value
		if n := len(s.b); n >= 1 && n <= 15 {
			allDig := True
			acc := ConstBV(64, 0)
			for _, b := range s.b {
				allDig = And(allDig, And(Ule(byteConsts['0'], b), Ule(b, byteConsts['9'])))
				acc = Add(Mul(acc, ConstBV(64, 10)), ZExt(Sub(b, byteConsts['0']), 64))
			}
			okT = Or(allDig, okT)
			val = Ite(allDig, FFromBV(acc, false, 64), val)
		}
		if E.branch(okT) {
			return tuple{val, nilError()}
		}
		return tuple{ConstFP(64, 0), mkError("strconv.ParseFloat: parsing <symbolic>: invalid syntax")}
	})

	// ---- fmt
	reg("fmt.Sprintf", func(fr *frame, args []value) value { return fmtSprintf(args[0].(Str), args[1]) })
	reg("fmt.Errorf", func(fr *frame, args []value) value {
		s := fmtSprintf(args[0].(Str), args[1])
		return mkErrorStr(s)
	})
	reg("fmt.Sprint", func(fr *frame, args []value) value { return fmtSprint(args[0], false) })
	reg("fmt.Sprintln", func(fr *frame, args []value) value { return fmtSprint(args[0], true) })
	reg("fmt.Println", func(fr *frame, args []value) value { return tuple{mkI(0), nilError()} })
	reg("fmt.Printf", func(fr *frame, args []value) value { return tuple{mkI(0), nilError()} })
	reg("fmt.Print", func(fr *frame, args []value) value { return tuple{mkI(0), nilError()} })
	reg("errors.New", func(fr *frame, args []value) value { return mkErrorStr(args[0].(Str)) })

	// ---- regexp
	reg("regexp.Compile", func(fr *frame, args []value) value { return regexpCompile(args[0], false) })
	reg("regexp.MustCompile", func(fr *frame, args []value) value {
		t := regexpCompile(args[0], false).(tuple)
		if t[1].(iface).t != nil {
			goPanic("regexp: Compile: error")
		}
		return t[0]
	})
	reg("(*regexp.Regexp).Match", func(fr *frame, args []value) value {
		return regexMatch(hostRe(args[0]), bytesToTerms(args[1]))
	})
	reg("(*regexp.Regexp).MatchString", func(fr *frame, args []value) value {
		return regexMatch(hostRe(args[0]), bytesToTerms(args[1]))
	})
	reg("(*regexp.Regexp).String", func(fr *frame, args []value) value { return mkStr(hostRe(args[0]).src) })
	reg("regexp.QuoteMeta", func(fr *frame, args []value) value { return mkStr(regexp.QuoteMeta(mustConcStr(args[0]))) })
}

func mkErrorStr(s Str) value {
	p := E.prog.ImportedPackage("errors")
	if p == nil {
		E.inconclusive("package errors not loaded")
	}
	t := p.Type("errorString").Object().Type()
	sv := value(structure{s})
	return iface{t: types.NewPointer(t), v: &sv}
}

// opaqueStr returns a placeholder string for a formatted symbolic value.
func opaqueStr(kind string, t *Term) Str {
	return mkStr("<" + kind + ":" + t.ref() + ">")
}

// ufParseFloat: validity and value of a float literal as uninterpreted functions of its bytes.
func ufParseFloat(b []*Term) (*Term, *Term) {
	// pack up to 8 bytes per argument word
	args := packBytes(b)
	name := fmt.Sprintf("pf%d", len(b))
	return UF("uf_"+name+"_ok", BoolSort, args...), UF("uf_"+name+"_val", FP64, args...)
}

func packBytes(b []*Term) []*Term {
	var args []*Term
	for i := 0; i < len(b); i += 8 {
		j := i + 8
		if j > len(b) {
			j = len(b)
		}
		w := b[i]
		for _, x := range b[i+1 : j] {
			w = Concat(w, x)
		}
		args = append(args, w)
	}
	if len(args) == 0 {
		args = append(args, ConstBV(8, 0))
	}
	return args
}

// ---- locks

type lockSt struct {
	writer  bool
	readers int
	owner   *G
}

func (e *Engine) lockState(p *value) *lockSt {
	if e.locks == nil {
		e.locks = map[*value]*lockSt{}
	}
	ls, ok := e.locks[p]
	if !ok {
		ls = &lockSt{}
		e.locks[p] = ls
	}
	return ls
}

func (e *Engine) lock(fr *frame, p *value, write bool) {
	if p == nil {
		goPanic("runtime error: invalid memory address or nil pointer dereference")
	}
	e.preemptPoint(fr.g, "Lock/RLock")
	ls := e.lockState(p)
	if write {
		e.blockUntil(fr.g, "Lock at "+e.where(fr.g), func() bool { return !ls.writer && ls.readers == 0 })
		ls.writer = true
		ls.owner = fr.g
	} else {
		e.blockUntil(fr.g, "RLock at "+e.where(fr.g), func() bool { return !ls.writer })
		ls.readers++
		if fr.g.rlocks == nil {
			fr.g.rlocks = map[*value]int{}
		}
		fr.g.rlocks[p]++
	}
	e.heldLocks[p] = true
}

func (e *Engine) unlock(fr *frame, p *value, write bool) {
	e.preemptPoint(fr.g, "Unlock/RUnlock")
	ls := e.lockState(p)
	if write {
		if !ls.writer {
			goPanic("sync: unlock of unlocked mutex")
		}
		ls.writer = false
	} else {
		if ls.readers <= 0 {
			goPanic("sync: RUnlock of unlocked RWMutex")
		}
		ls.readers--
		if fr.g.rlocks[p] > 0 {
			fr.g.rlocks[p]--
		}
	}
	if !ls.writer && ls.readers == 0 {
		delete(e.heldLocks, p)
	}
}

func (e *Engine) envLookup(name value) value {
	n := mustConcStr(name)
	if v, ok := e.env[n]; ok {
		return v
	}
	return Str{}
}

// ---- fmt support

func goValueOf(v iface) (interface{}, bool) {
	if v.t == nil {
		return nil, true
	}
	for _, h := range goValueHooks { // topic files (intrinsics_ogrek.go: *big.Int)
		if g, ok, handled := h(v); handled {
			return g, ok
		}
	}
	switch x := v.v.(type) {
	case *Term:
		if !x.IsConst() {
			return nil, false
		}
		b, ok := v.t.Underlying().(*types.Basic)
		if !ok {
			return nil, false
		}
		switch {
		case b.Info()&types.IsBoolean != 0:
			return x.C == 1, true
		case b.Info()&types.IsUnsigned != 0:
			switch x.S.W {
			case 8:
				return uint8(x.C), true
			case 16:
				return uint16(x.C), true
			case 32:
				return uint32(x.C), true
			}
			return x.C, true
		case b.Info()&types.IsInteger != 0:
			switch x.S.W {
			case 8:
				return int8(x.Int64()), true
			case 16:
				return int16(x.Int64()), true
			case 32:
				return int32(x.Int64()), true
			}
			if b.Kind() == types.Int {
				return int(x.Int64()), true
			}
			return x.Int64(), true
		case b.Info()&types.IsFloat != 0:
			return x.Float(), true
		}
	case Str:
		s, ok := x.concrete()
		return s, ok
	case []value:
		if sl, ok := v.t.Underlying().(*types.Slice); ok {
			if b, ok := sl.Elem().Underlying().(*types.Basic); ok && b.Kind() == types.Uint8 {
				bs, ok := concBytes(x)
				return bs, ok
			}
		}
	case *value:
		// error values: *errors.errorString
		if x != nil {
			if st, ok := (*x).(structure); ok && len(st) == 1 {
				if s, ok := st[0].(Str); ok {
					cs, ok := s.concrete()
					return fmt.Errorf("%s", cs), ok
				}
			}
		}
		return fmt.Sprintf("%p", x), true
	}
	return nil, false
}

func fmtSprintf(format Str, va value) Str {
	f, ok := format.concrete()
	if !ok {
		return mkStr("<fmt:symbolic-format>")
	}
	args, _ := va.([]value)
	goargs := make([]interface{}, len(args))
	allConc := true
	for i, a := range args {
		g, ok := goValueOf(a.(iface))
		if !ok {
			allConc = false
			break
		}
		goargs[i] = g
	}
	if allConc {
		return mkStr(fmt.Sprintf(f, goargs...))
	}
	return symSprintf(f, args)
}

// symSprintf handles formats whose verbs are %s/%q/%v with string-like symbolic args by splicing bytes;
// any other symbolic argument becomes an opaque marker.
func symSprintf(f string, args []value) Str {
	var out []*Term
	ai := 0
	for i := 0; i < len(f); i++ {
		c := f[i]
		if c != '%' {
			out = append(out, byteConsts[c])
			continue
		}
		// parse verb
		j := i + 1
		for j < len(f) && strings.IndexByte("+-# 0123456789.", f[j]) >= 0 {
			j++
		}
		if j >= len(f) {
			break
		}
		verb := f[j]
		spec := f[i : j+1]
		i = j
		if verb == '%' {
			out = append(out, byteConsts['%'])
			continue
		}
		if ai >= len(args) {
			out = append(out, mkStr("%!"+string(verb)+"(MISSING)").b...)
			continue
		}
		a := args[ai].(iface)
		ai++
		if g, ok := goValueOf(a); ok {
			out = append(out, mkStr(fmt.Sprintf(spec, g)).b...)
			continue
		}
		switch x := a.v.(type) {
		case Str:
			if spec == "%s" || spec == "%v" {
				out = append(out, x.b...)
				continue
			}
			if spec == "%q" {
				out = append(out, byteConsts['"'])
				out = append(out, x.b...)
				out = append(out, byteConsts['"'])
				continue
			}
		case []value:
			if spec == "%x" {
				var sb strings.Builder
				sb.WriteString("<%x")
				for _, e := range x {
					if t, isT := e.(*Term); isT {
						sb.WriteString(":" + t.ref())
					}
				}
				sb.WriteString(">")
				out = append(out, mkStr(sb.String()).b...)
				continue
			}
			if spec == "%s" || spec == "%v" || spec == "%q" {
				ok := true
				for _, e := range x {
					if _, isT := e.(*Term); !isT {
						ok = false
					}
				}
				if ok {
					out = append(out, bytesToTerms(x)...)
					continue
				}
			}
		case *Term:
			E.fmtOpaque = append(E.fmtOpaque, fmtRecord{spec: spec, arg: x})
			out = append(out, mkStr(fmt.Sprintf("<%s:%s>", spec, x.ref())).b...)
			continue
		}
		out = append(out, mkStr("<"+spec+":?>").b...)
	}
	return Str{out}
}

type fmtRecord struct {
	spec string
	arg  *Term
}

func fmtSprint(va value, ln bool) Str {
	args, _ := va.([]value)
	var out []*Term
	for i, a := range args {
		if i > 0 && ln {
			out = append(out, byteConsts[' '])
		}
		it := a.(iface)
		if g, ok := goValueOf(it); ok {
			out = append(out, mkStr(fmt.Sprint(g)).b...)
			continue
		}
		if s, ok := it.v.(Str); ok {
			out = append(out, s.b...)
			continue
		}
		out = append(out, mkStr("<?>").b...)
	}
	if ln {
		out = append(out, byteConsts['\n'])
	}
	return Str{out}
}
