package main

// FS is the in-memory file-system model (filled in by fs intrinsics).
type FS struct {
	files map[string]*memFile
}

type memFile struct {
	data []value
}
