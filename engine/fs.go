package main

// In-memory file-system model (process-crash semantics: every completed call is durable).

import (
	"fmt"
	"go/types"
	"sort"
	"strings"
)

type FS struct {
	files     map[string]*memFile
	mutations int
	dirty     bool // a mutation happened that has not been followed by a crash-point hook yet
	log       []string
}

type memFile struct {
	data []*Term
}

type hostFile struct {
	name   string
	f      *memFile
	pos    int
	closed bool
	flags  int64
}

func (e *Engine) fs() *FS {
	if e.fsState == nil {
		e.fsState = &FS{files: map[string]*memFile{}}
	}
	return e.fsState
}

func (fs *FS) mutate(what string) {
	if fs.dirty && E.hookCheck {
		E.inconclusive("filesystem mutation without a crash-point hook in between: " + fs.log[len(fs.log)-1] + " then " + what)
	}
	fs.mutations++
	fs.dirty = true
	fs.log = append(fs.log, what)
}

func hostFileOf(v value) *hostFile {
	p, _ := v.(*value)
	if p == nil {
		goPanic("runtime error: invalid memory address or nil pointer dereference (nil *os.File)")
	}
	hf, ok := (*p).(*hostFile)
	if !ok {
		E.inconclusive("os.File that was not opened through the FS model")
	}
	return hf
}

func errNotExist(op, name string) value {
	return mkError(op + " " + name + ": no such file or directory")
}

func ioEOF() value { return globalValue("io", "EOF") }

func init() {
	reg("os.MkdirAll", func(fr *frame, args []value) value { return nilError() })
	reg("os.Mkdir", func(fr *frame, args []value) value { return nilError() })
	reg("os.OpenFile", func(fr *frame, args []value) value {
		name := mustConcStr(args[0])
		flags := concInt(args[1], true)
		fs := E.fs()
		f, ok := fs.files[name]
		if !ok {
			if flags&0x40 == 0 { // O_CREATE
				return tuple{(*value)(nil), errNotExist("open", name)}
			}
			f = &memFile{}
			fs.files[name] = f
			fs.mutate("create " + name)
		}
		if flags&0x200 != 0 && len(f.data) > 0 { // O_TRUNC
			f.data = nil
			fs.mutate("truncate " + name)
		}
		hf := &hostFile{name: name, f: f, flags: flags}
		if flags&0x400 != 0 {
			hf.pos = len(f.data)
		}
		cell := value(hf)
		return tuple{&cell, nilError()}
	})
	reg("os.Open", func(fr *frame, args []value) value {
		name := mustConcStr(args[0])
		f, ok := E.fs().files[name]
		if !ok {
			return tuple{(*value)(nil), errNotExist("open", name)}
		}
		cell := value(&hostFile{name: name, f: f})
		return tuple{&cell, nilError()}
	})
	reg("os.Create", func(fr *frame, args []value) value {
		name := mustConcStr(args[0])
		fs := E.fs()
		f := &memFile{}
		fs.files[name] = f
		fs.mutate("create " + name)
		cell := value(&hostFile{name: name, f: f, flags: 2})
		return tuple{&cell, nilError()}
	})
	reg("os.Remove", func(fr *frame, args []value) value {
		name := mustConcStr(args[0])
		fs := E.fs()
		if _, ok := fs.files[name]; !ok {
			return errNotExist("remove", name)
		}
		delete(fs.files, name)
		fs.mutate("remove " + name)
		return nilError()
	})
	reg("os.Rename", func(fr *frame, args []value) value {
		from, to := mustConcStr(args[0]), mustConcStr(args[1])
		fs := E.fs()
		f, ok := fs.files[from]
		if !ok {
			return errNotExist("rename", from)
		}
		delete(fs.files, from)
		fs.files[to] = f
		fs.mutate("rename " + from + " -> " + to)
		return nilError()
	})
	statf := func(fr *frame, args []value) value {
		name := mustConcStr(args[0])
		f, ok := E.fs().files[name]
		if !ok {
			return tuple{iface{}, errNotExist("stat", name)}
		}
		h := &hostObj{name: "os.FileInfo", methods: map[string]*hostFunc{}}
		h.methods["Size"] = &hostFunc{name: "Size", f: func(fr *frame, a []value) value { return mkI(len(f.data)) }}
		h.methods["Name"] = &hostFunc{name: "Name", f: func(fr *frame, a []value) value { return mkStr(name) }}
		h.methods["IsDir"] = &hostFunc{name: "IsDir", f: func(fr *frame, a []value) value { return False }}
		return tuple{iface{t: types.NewPointer(pkgType("os", "fileStat")), v: h}, nilError()}
	}
	reg("os.Stat", statf)
	reg("os.Lstat", statf)
	reg("os.IsNotExist", func(fr *frame, args []value) value {
		it := args[0].(iface)
		if it.t == nil {
			return False
		}
		if p, ok := it.v.(*value); ok && p != nil {
			if st, ok := (*p).(structure); ok && len(st) == 1 {
				if s, ok := st[0].(Str); ok {
					cs, _ := s.concrete()
					return ConstBool(strings.HasSuffix(cs, "no such file or directory"))
				}
			}
		}
		return False
	})
	reg("os.ReadFile", func(fr *frame, args []value) value {
		name := mustConcStr(args[0])
		f, ok := E.fs().files[name]
		if !ok {
			return tuple{[]value(nil), errNotExist("open", name)}
		}
		return tuple{termsToSlice(append([]*Term(nil), f.data...)), nilError()}
	})
	reg("io/ioutil.ReadFile", intrinsics["os.ReadFile"])
	reg("(*os.File).Write", func(fr *frame, args []value) value {
		hf := hostFileOf(args[0])
		if hf.closed {
			return tuple{mkI(0), mkError("write " + hf.name + ": file already closed")}
		}
		p := bytesToTerms(args[1])
		if len(p) == 0 {
			return tuple{mkI(0), nilError()}
		}
		for len(hf.f.data) < hf.pos {
			hf.f.data = append(hf.f.data, byteConsts[0])
		}
		nd := append([]*Term(nil), hf.f.data[:hf.pos]...)
		nd = append(nd, p...)
		if hf.pos+len(p) < len(hf.f.data) {
			nd = append(nd, hf.f.data[hf.pos+len(p):]...)
		}
		hf.f.data = nd
		hf.pos += len(p)
		E.fs().mutate(fmt.Sprintf("write %s %d bytes", hf.name, len(p)))
		return tuple{mkI(len(p)), nilError()}
	})
	reg("(*os.File).WriteString", func(fr *frame, args []value) value {
		return intrinsics["(*os.File).Write"](fr, []value{args[0], termsToSlice(args[1].(Str).b)})
	})
	reg("(*os.File).Read", func(fr *frame, args []value) value {
		hf := hostFileOf(args[0])
		if hf.closed {
			return tuple{mkI(0), mkError("read " + hf.name + ": file already closed")}
		}
		p, _ := args[1].([]value)
		if len(p) == 0 {
			return tuple{mkI(0), nilError()}
		}
		n := len(hf.f.data) - hf.pos
		if n <= 0 {
			return tuple{mkI(0), ioEOF()}
		}
		if n > len(p) {
			n = len(p)
		}
		for i := 0; i < n; i++ {
			p[i] = hf.f.data[hf.pos+i]
		}
		hf.pos += n
		return tuple{mkI(n), nilError()}
	})
	reg("(*os.File).Seek", func(fr *frame, args []value) value {
		hf := hostFileOf(args[0])
		off := concInt(args[1], true)
		wh := concInt(args[2], true)
		switch wh {
		case 0:
			hf.pos = int(off)
		case 1:
			hf.pos += int(off)
		case 2:
			hf.pos = len(hf.f.data) + int(off)
		}
		if hf.pos < 0 {
			hf.pos = 0
			return tuple{mkI(0), mkError("seek: invalid argument")}
		}
		return tuple{mkI(hf.pos), nilError()}
	})
	reg("(*os.File).Sync", func(fr *frame, args []value) value {
		hostFileOf(args[0]) // fsync changes no state under process-crash semantics
		return nilError()
	})
	reg("(*os.File).Close", func(fr *frame, args []value) value {
		p, _ := args[0].(*value)
		if p == nil {
			return mkError("invalid argument")
		}
		hf := hostFileOf(args[0])
		if hf.closed {
			return mkError("close " + hf.name + ": file already closed")
		}
		hf.closed = true
		return nilError()
	})
	reg("(*os.File).Name", func(fr *frame, args []value) value { return mkStr(hostFileOf(args[0]).name) })

	// fmt over writers/readers
	reg("fmt.Fprintf", func(fr *frame, args []value) value {
		s := fmtSprintf(args[1].(Str), args[2])
		return writeTo(fr, args[0].(iface), termsToSlice(s.b))
	})
	reg("fmt.Fprintln", func(fr *frame, args []value) value {
		s := fmtSprint(args[1], true)
		return writeTo(fr, args[0].(iface), termsToSlice(s.b))
	})
	reg("fmt.Fprint", func(fr *frame, args []value) value {
		s := fmtSprint(args[1], false)
		return writeTo(fr, args[0].(iface), termsToSlice(s.b))
	})
	reg("fmt.Fscanf", func(fr *frame, args []value) value {
		rd := args[0].(iface)
		format := mustConcStr(args[1])
		ptrs, _ := args[2].([]value)
		p, ok := rd.v.(*value)
		if !ok || p == nil {
			E.inconclusive("fmt.Fscanf on unsupported reader")
		}
		hf, ok := (*p).(*hostFile)
		if !ok {
			E.inconclusive("fmt.Fscanf on unsupported reader")
		}
		var bs []byte
		for _, t := range hf.f.data[hf.pos:] {
			if !t.IsConst() {
				E.inconclusive("fmt.Fscanf on symbolic file content")
			}
			bs = append(bs, byte(t.C))
		}
		hf.pos = len(hf.f.data)
		gos := make([]interface{}, len(ptrs))
		ints := make([]int64, len(ptrs))
		for i := range ptrs {
			gos[i] = &ints[i]
		}
		n, err := fmt.Sscanf(string(bs), format, gos...)
		for i := 0; i < n && i < len(ptrs); i++ {
			it := ptrs[i].(iface)
			et := it.t.Underlying().(*types.Pointer).Elem()
			*(it.v.(*value)) = ConstBV(intWidth(et), uint64(ints[i]))
		}
		if err != nil {
			return tuple{mkI(n), mkError(err.Error())}
		}
		return tuple{mkI(n), nilError()}
	})

	// crash points
	verifFuncs["verifFsMutations"] = func(fr *frame, a []value) value { return mkI(E.fs().mutations) }
	verifFuncs["verifFsHooked"] = func(fr *frame, a []value) value {
		fs := E.fs()
		fs.dirty = false
		E.hookCheck = true
		return nil
	}
	verifFuncs["verifFsUnhooked"] = func(fr *frame, a []value) value { return ConstBool(E.fs().dirty) }
	verifFuncs["verifCrashHere"] = func(fr *frame, a []value) value {
		// fork: the process dies right here (all other goroutines are frozen for good), or it continues
		if E.crashed {
			return False
		}
		E.crashPoints++
		if E.choose(2) == 1 {
			E.crashed = true
			E.crashLabel = mustConcStr(a[0])
			// recorded as a variable so that the native replay knows the crash point (1-based; absent = none)
			v := E.fresh("crashpoint", BV(64))
			E.addPC(Eq(v, mkI(E.crashPoints)))
			return True
		}
		return False
	}
	verifFuncs["verifFreezeOthers"] = func(fr *frame, a []value) value {
		// every goroutine except main stops forever; the caller (if not main) parks forever too
		for _, g := range E.gs {
			if !g.isMain && g != fr.g && g.state != gDone {
				g.state = gFrozen
				g.cases = nil
				g.poll = nil
			}
		}
		if !fr.g.isMain {
			fr.g.state = gFrozen
			fr.g.cases = nil
			fr.g.poll = nil
			E.yield(fr.g)
		}
		return nil
	}
	verifFuncs["verifTempDir"] = func(fr *frame, a []value) value { return mkStr("/spool") }
	verifFuncs["verifSnapshotDir"] = func(fr *frame, a []value) value { return a[0] }
	verifFuncs["verifFsDump"] = func(fr *frame, a []value) value {
		if E.verbose {
			var names []string
			for n, f := range E.fs().files {
				names = append(names, fmt.Sprintf("%s(%d)", n, len(f.data)))
			}
			sort.Strings(names)
			fmt.Println("FS:", names)
		}
		return nil
	}
}

// writeTo invokes w.Write(p) for an io.Writer interface value.
func writeTo(fr *frame, w iface, p []value) value {
	if w.t == nil {
		goPanic("runtime error: invalid memory address or nil pointer dereference (nil io.Writer)")
	}
	if p0, ok := w.v.(*value); ok && p0 != nil {
		if _, isFile := (*p0).(*hostFile); isFile {
			return intrinsics["(*os.File).Write"](fr, []value{w.v, p})
		}
	}
	// generic: look up Write in the method set
	ms := E.prog.MethodSets.MethodSet(w.t)
	for i := 0; i < ms.Len(); i++ {
		sel := ms.At(i)
		if sel.Obj().Name() == "Write" {
			fn := E.prog.MethodValue(sel)
			return callValue(fr, 0, fn, []value{w.v, p})
		}
	}
	E.inconclusive("fmt.Fprintf: writer without Write method: " + w.t.String())
	return nil
}
