package main

// Stubs for the grafana.net route: message encoding, snappy, http client with solver-chosen outcomes.

import (
	"fmt"
	"go/types"
)

type httpAttempt struct {
	g       int
	batch   int
	outcome int // 0 = 2xx, 1 = 5xx, 2 = transport error, 3 = 4xx
}

type httpState struct {
	batches    [][]value // each batch: list of *MetricData pointers (as values)
	lastBatch  map[int]int
	attempts   []httpAttempt
	failures   int
	maxFail    int
	allowHang  bool
	allowBadBody bool // outcome 5: an error status whose body cannot be read to the end
}

func stringsHasSuffix(s, suf string) bool { return len(s) >= len(suf) && s[len(s)-len(suf):] == suf }

func httpResponse(fr *frame, code int, badBody bool) value {
	t := pkgType("net/http", "Response")
	st := zero(t).(structure)
	st[fieldIndex(t, "StatusCode")] = mkI(code)
	st[fieldIndex(t, "Status")] = mkStr(fmt.Sprintf("%d", code))
	var body value
	if badBody {
		// Body: the harness runtime's verifFailBody (harness/rt/rt.go): every Read fails with io.ErrUnexpectedEOF
		bt := E.harnessPkg.Type("verifFailBody")
		if bt == nil {
			E.inconclusive("harness runtime has no type verifFailBody")
		}
		body = iface{t: bt.Object().Type(), v: zero(bt.Object().Type())}
	} else {
		// Body: io.NopCloser(strings.NewReader(""))
		rt := pkgType("strings", "Reader")
		rd := value(zero(rt))
		body = callPkgFunc(fr, "io", "NopCloser", []value{iface{t: types.NewPointer(rt), v: &rd}})
	}
	st[fieldIndex(t, "Body")] = body
	cell := value(st)
	return tuple{&cell, nilError()}
}

func (e *Engine) http() *httpState {
	if e.httpSt == nil {
		e.httpSt = &httpState{lastBatch: map[int]int{}, maxFail: 2}
	}
	return e.httpSt
}

func mdName(v value) Str {
	p := v.(*value)
	st := (*p).(structure)
	t := pkgType("github.com/grafana/metrictank/schema", "MetricData")
	return st[fieldIndex(t, "Name")].(Str)
}

func mdTime(v value) Str {
	p := v.(*value)
	st := (*p).(structure)
	t := pkgType("github.com/grafana/metrictank/schema", "MetricData")
	tm := st[fieldIndex(t, "Time")].(*Term)
	if tm.IsConst() {
		return mkStr(fmt.Sprintf("%d", tm.Int64()))
	}
	return mkStr("?")
}

func init() {
	reg("github.com/grafana/metrictank/schema/msg.CreateMsg", func(fr *frame, args []value) value {
		h := E.http()
		mda, _ := args[0].([]value)
		id := len(h.batches)
		h.batches = append(h.batches, append([]value(nil), mda...))
		h.lastBatch[fr.g.id] = id
		return tuple{[]value{byteConsts[byte(id)]}, nilError()}
	})
	reg("(*github.com/golang/snappy.Writer).Write", func(fr *frame, args []value) value {
		// identity "compression": hand the bytes to the underlying writer
		w := (*args[0].(*value)).(structure)
		t := pkgType("github.com/golang/snappy", "Writer")
		under := w[fieldIndex(t, "w")].(iface)
		p, _ := args[1].([]value)
		writeTo(fr, under, p)
		return tuple{mkI(len(p)), nilError()}
	})
	reg("(*github.com/golang/snappy.Writer).Close", func(fr *frame, args []value) value { return nilError() })
	reg("(*github.com/golang/snappy.Writer).Flush", func(fr *frame, args []value) value { return nilError() })
	reg("net/http.NewRequest", func(fr *frame, args []value) value {
		t := pkgType("net/http", "Request")
		st := zero(t).(structure)
		st[fieldIndex(t, "Method")] = args[0]
		st[fieldIndex(t, "Host")] = args[1] // the URL text (only used by the model of Client.Do)
		ht := t.Underlying().(*types.Struct).Field(fieldIndex(t, "Header")).Type()
		st[fieldIndex(t, "Header")] = newMap(ht.Underlying().(*types.Map))
		cell := value(st)
		return tuple{&cell, nilError()}
	})
	reg("(net/http.Header).Add", func(fr *frame, args []value) value { return nil })
	reg("(net/http.Header).Set", func(fr *frame, args []value) value { return nil })
	reg("(*net/http.Client).Do", func(fr *frame, args []value) value {
		h := E.http()
		// only POSTs of metrics are modelled with faults; other requests (schema / aggregation config) succeed
		if rq, ok := args[1].(*value); ok && rq != nil {
			rt := pkgType("net/http", "Request")
			if u, ok := (*rq).(structure)[fieldIndex(rt, "Host")].(Str); ok {
				if us, conc := u.concrete(); conc && us != "" && !stringsHasSuffix(us, "/metrics") {
					return httpResponse(fr, 200, false)
				}
			}
		}
		outcome := 0
		if h.failures < h.maxFail {
			alts := []int{0, 1, 2, 3}
			if h.allowHang {
				alts = append(alts, 4)
			}
			if h.allowBadBody {
				alts = append(alts, 5)
			}
			outcome = alts[E.choose(len(alts))]
			E.choices = append(E.choices, outcome)
		}
		badBody := false
		if outcome == 5 {
			// an error status (5xx) whose body breaks off: the request failed like any other 5xx
			outcome, badBody = 1, true
		}
		if outcome == 4 {
			// the peer sends (part of) a response and then stalls: the exchange only ends if the client has an
			// overall deadline (http.Client.Timeout); without one the caller is stuck for good
			h.failures++
			h.attempts = append(h.attempts, httpAttempt{g: fr.g.id, batch: h.lastBatch[fr.g.id], outcome: 2})
			ct := pkgType("net/http", "Client")
			cl := (*args[0].(*value)).(structure)
			to := cl[fieldIndex(ct, "Timeout")].(*Term)
			if to.IsConst() && to.Int64() > 0 {
				return tuple{(*value)(nil), mkError("Post: context deadline exceeded (Client.Timeout exceeded while awaiting the response) (verif http model)")}
			}
			E.blockUntil(fr.g, "HTTP exchange stalled by the peer and the client has no overall timeout", func() bool { return false })
		}
		if outcome != 0 {
			h.failures++
		}
		h.attempts = append(h.attempts, httpAttempt{g: fr.g.id, batch: h.lastBatch[fr.g.id], outcome: outcome})
		if outcome == 2 {
			return tuple{(*value)(nil), mkError("Post: connection reset by peer (verif http model)")}
		}
		code := 200
		if outcome == 1 {
			code = 503
		} else if outcome == 3 {
			code = 400
		}
		return httpResponse(fr, code, badBody)
	})
	reg("encoding/json.Unmarshal", func(fr *frame, args []value) value { return nilError() })
	reg("(*github.com/jpillora/backoff.Backoff).Duration", func(fr *frame, args []value) value { return ConstBV(64, 1000000) })
	reg("(*github.com/jpillora/backoff.Backoff).Reset", func(fr *frame, args []value) value { return nil })

	// observation functions: names (joined by '\n') of all metrics in acknowledged batches, in ack order
	verifFuncs["verifHTTPAcked"] = func(fr *frame, a []value) value {
		h := E.http()
		var out []value
		for _, at := range h.attempts {
			if at.outcome != 0 {
				continue
			}
			for _, md := range h.batches[at.batch] {
				out = append(out, termsToSlice(mdName(md).b)...)
				out = append(out, byteConsts['@'])
				out = append(out, termsToSlice(mdTime(md).b)...)
				out = append(out, byteConsts['\n'])
			}
		}
		return out
	}
	verifFuncs["verifHTTPAttempts"] = func(fr *frame, a []value) value { return mkI(len(E.http().attempts)) }
	verifFuncs["verifHTTPFailures"] = func(fr *frame, a []value) value { return mkI(E.http().failures) }
	verifFuncs["verifHTTPAllowStall"] = func(fr *frame, a []value) value {
		E.http().allowHang = a[0].(*Term).IsTrue()
		return nil
	}
	verifFuncs["verifHTTPAllowBadBody"] = func(fr *frame, a []value) value {
		E.http().allowBadBody = a[0].(*Term).IsTrue()
		return nil
	}
	verifFuncs["verifHTTPMaxFailures"] = func(fr *frame, a []value) value {
		E.http().maxFail = int(concInt(a[0], true))
		return nil
	}
	// every failed attempt was followed by a later attempt of the same batch (never skipped)
	verifFuncs["verifHTTPRetriedSameBatch"] = func(fr *frame, a []value) value {
		h := E.http()
		for i, at := range h.attempts {
			if at.outcome == 0 {
				continue
			}
			ok := false
			for _, later := range h.attempts[i+1:] {
				if later.g == at.g {
					ok = later.batch == at.batch
					break
				}
			}
			if !ok {
				return False
			}
		}
		return True
	}
}
