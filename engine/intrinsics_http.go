package main

// Stubs for the grafana.net route: message encoding, snappy, http client with solver-chosen outcomes.

import (
	"fmt"
	"go/types"
)

type httpAttempt struct {
	g       int
	batch   int
	outcome int // 0 = 2xx, 1 = 5xx, 2 = transport error, 3 = 4xx
}

type httpState struct {
	batches    [][]value // each batch: list of *MetricData pointers (as values)
	lastBatch  map[int]int
	attempts   []httpAttempt
	failures   int
	maxFail    int
	allowHang  bool
	allowBadBody bool // outcome 5: an error status whose body cannot be read to the end
}

func stringsHasSuffix(s, suf string) bool { return len(s) >= len(suf) && s[len(s)-len(suf):] == suf }

func httpResponse(fr *frame, code int, badBody bool) value {
	t := pkgType("net/http", "Response")
	st := zero(t).(structure)
	st[fieldIndex(t, "StatusCode")] = mkI(code)
	st[fieldIndex(t, "Status")] = mkStr(fmt.Sprintf("%d", code))
	var body value
	if badBody {
		// Body: the harness runtime's verifFailBody (harness/rt/rt.go): every Read fails with io.ErrUnexpectedEOF
		bt := E.harnessPkg.Type("verifFailBody")
		if bt == nil {
			E.inconclusive("harness runtime has no type verifFailBody")
		}
		body = iface{t: bt.Object().Type(), v: zero(bt.Object().Type())}
	} else {
		// Body: io.NopCloser(strings.NewReader(""))
		rt := pkgType("strings", "Reader")
		rd := value(zero(rt))
		body = callPkgFunc(fr, "io", "NopCloser", []value{iface{t: types.NewPointer(rt), v: &rd}})
	}
	st[fieldIndex(t, "Body")] = body
	cell := value(st)
	return tuple{&cell, nilError()}
}

// httpReadAll reads an io.Reader value to its end through its own Read method (bounded).
func httpReadAll(fr *frame, r iface) []value {
	var read value
	ms := E.prog.MethodSets.MethodSet(r.t)
	for i := 0; i < ms.Len(); i++ {
		if ms.At(i).Obj().Name() == "Read" {
			read = E.prog.MethodValue(ms.At(i))
		}
	}
	if read == nil {
		E.inconclusive("http model: request body without Read method: " + r.t.String())
	}
	var out []value
	for k := 0; k < 64; k++ {
		buf := make([]value, 512)
		for i := range buf {
			buf[i] = byteConsts[0]
		}
		res := callValue(fr, 0, read, []value{r.v, buf}).(tuple)
		n := int(concInt(res[0], true))
		out = append(out, buf[:n]...)
		if e, ok := res[1].(iface); ok && e.t != nil {
			return out
		}
		if n == 0 {
			return out
		}
	}
	return out
}

func (e *Engine) http() *httpState {
	if e.httpSt == nil {
		e.httpSt = &httpState{lastBatch: map[int]int{}, maxFail: 2}
	}
	return e.httpSt
}

func mdName(v value) Str {
	p := v.(*value)
	st := (*p).(structure)
	t := pkgType("github.com/grafana/metrictank/schema", "MetricData")
	return st[fieldIndex(t, "Name")].(Str)
}

func mdTime(v value) Str {
	p := v.(*value)
	st := (*p).(structure)
	t := pkgType("github.com/grafana/metrictank/schema", "MetricData")
	tm := st[fieldIndex(t, "Time")].(*Term)
	if tm.IsConst() {
		return mkStr(fmt.Sprintf("%d", tm.Int64()))
	}
	return mkStr("?")
}

func init() {
	reg("github.com/grafana/metrictank/schema/msg.CreateMsg", func(fr *frame, args []value) value {
		h := E.http()
		mda, _ := args[0].([]value)
		id := len(h.batches)
		h.batches = append(h.batches, append([]value(nil), mda...))
		h.lastBatch[fr.g.id] = id
		return tuple{[]value{byteConsts[byte(id)]}, nilError()}
	})
	reg("(*github.com/golang/snappy.Writer).Write", func(fr *frame, args []value) value {
		// identity "compression": hand the bytes to the underlying writer
		w := (*args[0].(*value)).(structure)
		t := pkgType("github.com/golang/snappy", "Writer")
		under := w[fieldIndex(t, "w")].(iface)
		p, _ := args[1].([]value)
		writeTo(fr, under, p)
		return tuple{mkI(len(p)), nilError()}
	})
	reg("(*github.com/golang/snappy.Writer).Close", func(fr *frame, args []value) value { return nilError() })
	reg("(*github.com/golang/snappy.Writer).Flush", func(fr *frame, args []value) value { return nilError() })
	reg("net/http.NewRequest", func(fr *frame, args []value) value {
		t := pkgType("net/http", "Request")
		st := zero(t).(structure)
		st[fieldIndex(t, "Method")] = args[0]
		st[fieldIndex(t, "Host")] = args[1] // the URL text (only used by the model of Client.Do)
		if b, ok := args[2].(iface); ok && b.t != nil {
			// as net/http does: the body reader wrapped into a ReadCloser
			st[fieldIndex(t, "Body")] = callPkgFunc(fr, "io", "NopCloser", []value{b})
		}
		ht := t.Underlying().(*types.Struct).Field(fieldIndex(t, "Header")).Type()
		st[fieldIndex(t, "Header")] = newMap(ht.Underlying().(*types.Map))
		cell := value(st)
		return tuple{&cell, nilError()}
	})
	reg("(net/http.Header).Add", func(fr *frame, args []value) value { return nil })
	reg("(net/http.Header).Set", func(fr *frame, args []value) value { return nil })
	reg("(*net/http.Client).Do", func(fr *frame, args []value) value {
		h := E.http()
		// only POSTs of metrics are modelled with faults; other requests (schema / aggregation config) succeed
		if rq, ok := args[1].(*value); ok && rq != nil {
			rt := pkgType("net/http", "Request")
			if u, ok := (*rq).(structure)[fieldIndex(rt, "Host")].(Str); ok {
				if us, conc := u.concrete(); conc && us != "" && !stringsHasSuffix(us, "/metrics") {
					return httpResponse(fr, 200, false)
				}
			}
		}
		// the transport reads the request body to its end: what the peer receives is what the body delivers NOW
		// (a body already consumed by an earlier attempt delivers nothing); the batch this attempt carries is
		// identified by that content (CreateMsg model: one byte = batch id), -1 if it is anything else
		sentBatch := -1
		if rq, ok := args[1].(*value); ok && rq != nil {
			rt := pkgType("net/http", "Request")
			if b, ok := (*rq).(structure)[fieldIndex(rt, "Body")].(iface); ok && b.t != nil {
				got := httpReadAll(fr, b)
				if len(got) == 1 {
					if t, ok := got[0].(*Term); ok && t.IsConst() {
						sentBatch = int(t.C)
					}
				}
			} else {
				sentBatch = h.lastBatch[fr.g.id] // requests built without the NewRequest model
			}
		}
		outcome := 0
		if h.failures < h.maxFail {
			alts := []int{0, 1, 2, 3}
			if h.allowHang {
				alts = append(alts, 4)
			}
			if h.allowBadBody {
				alts = append(alts, 5)
			}
			outcome = alts[E.choose(len(alts))]
			E.choices = append(E.choices, outcome)
		}
		badBody := false
		if outcome == 5 {
			// an error status (5xx) whose body breaks off: the request failed like any other 5xx
			outcome, badBody = 1, true
		}
		if outcome == 4 {
			// the peer sends (part of) a response and then stalls: the exchange only ends if the client has an
			// overall deadline (http.Client.Timeout); without one the caller is stuck for good
			h.failures++
			h.attempts = append(h.attempts, httpAttempt{g: fr.g.id, batch: sentBatch, outcome: 2})
			ct := pkgType("net/http", "Client")
			cl := (*args[0].(*value)).(structure)
			to := cl[fieldIndex(ct, "Timeout")].(*Term)
			if to.IsConst() && to.Int64() > 0 {
				return tuple{(*value)(nil), mkError("Post: context deadline exceeded (Client.Timeout exceeded while awaiting the response) (verif http model)")}
			}
			E.blockUntil(fr.g, "HTTP exchange stalled by the peer and the client has no overall timeout", func() bool { return false })
		}
		if outcome != 0 {
			h.failures++
		}
		h.attempts = append(h.attempts, httpAttempt{g: fr.g.id, batch: sentBatch, outcome: outcome})
		if outcome == 2 {
			return tuple{(*value)(nil), mkError("Post: connection reset by peer (verif http model)")}
		}
		code := 200
		if outcome == 1 {
			code = 503
		} else if outcome == 3 {
			code = 400
		}
		return httpResponse(fr, code, badBody)
	})
	reg("encoding/json.Unmarshal", func(fr *frame, args []value) value { return nilError() })
	reg("(*github.com/jpillora/backoff.Backoff).Duration", func(fr *frame, args []value) value { return ConstBV(64, 1000000) })
	reg("(*github.com/jpillora/backoff.Backoff).Reset", func(fr *frame, args []value) value { return nil })

	// observation functions: names (joined by '\n') of all metrics in acknowledged batches, in ack order
	verifFuncs["verifHTTPAcked"] = func(fr *frame, a []value) value {
		h := E.http()
		var out []value
		for _, at := range h.attempts {
			if at.outcome != 0 || at.batch < 0 || at.batch >= len(h.batches) {
				continue // failed, or the peer received something that is not a batch (e.g. an empty body)
			}
			for _, md := range h.batches[at.batch] {
				out = append(out, termsToSlice(mdName(md).b)...)
				out = append(out, byteConsts['@'])
				out = append(out, termsToSlice(mdTime(md).b)...)
				out = append(out, byteConsts['\n'])
			}
		}
		return out
	}
	verifFuncs["verifHTTPAttempts"] = func(fr *frame, a []value) value { return mkI(len(E.http().attempts)) }
	verifFuncs["verifHTTPFailures"] = func(fr *frame, a []value) value { return mkI(E.http().failures) }
	verifFuncs["verifHTTPAllowStall"] = func(fr *frame, a []value) value {
		E.http().allowHang = a[0].(*Term).IsTrue()
		return nil
	}
	verifFuncs["verifHTTPAllowBadBody"] = func(fr *frame, a []value) value {
		E.http().allowBadBody = a[0].(*Term).IsTrue()
		return nil
	}
	verifFuncs["verifHTTPMaxFailures"] = func(fr *frame, a []value) value {
		E.http().maxFail = int(concInt(a[0], true))
		return nil
	}
	// every failed attempt was followed by a later attempt of the same batch (never skipped)
	verifFuncs["verifHTTPRetriedSameBatch"] = func(fr *frame, a []value) value {
		h := E.http()
		for i, at := range h.attempts {
			if at.outcome == 0 {
				continue
			}
			ok := false
			for _, later := range h.attempts[i+1:] {
				if later.g == at.g {
					ok = later.batch == at.batch
					break
				}
			}
			if !ok {
				return False
			}
		}
		return True
	}
}
