package main

import (
	"fmt"
	"regexp"
	"regexp/syntax"
)

type hostRegexp struct {
	src  string
	re   *regexp.Regexp
	prog *syntax.Prog
}

func hostRe(v value) *hostRegexp {
	p, _ := v.(*value)
	if p == nil {
		goPanic("runtime error: invalid memory address or nil pointer dereference (nil *regexp.Regexp)")
	}
	return (*p).(*hostRegexp)
}

var regexCache = map[string]*hostRegexp{}

func compileHostRegexp(pat string) (*hostRegexp, error) {
	if h, ok := regexCache[pat]; ok {
		return h, nil
	}
	re, err := regexp.Compile(pat)
	if err != nil {
		return nil, err
	}
	parsed, err := syntax.Parse(pat, syntax.Perl)
	if err != nil {
		return nil, err
	}
	prog, err := syntax.Compile(parsed.Simplify())
	if err != nil {
		return nil, err
	}
	h := &hostRegexp{src: pat, re: re, prog: prog}
	regexCache[pat] = h
	return h, nil
}

func regexpCompile(pat value, posix bool) value {
	s, ok := pat.(Str).concrete()
	if !ok {
		E.inconclusive("regexp.Compile on symbolic pattern")
	}
	h, err := compileHostRegexp(s)
	if err != nil {
		return tuple{(*value)(nil), mkError(err.Error())}
	}
	cell := value(h)
	return tuple{&cell, nilError()}
}

// byteClass returns the condition that symbolic byte b is matched by rune instruction inst,
// computed from the real Inst.MatchRune over the ASCII range.
func byteClass(inst *syntax.Inst, b *Term) *Term {
	var set [128]bool
	for c := 0; c < 128; c++ {
		set[c] = inst.MatchRune(rune(c))
	}
	if b.IsConst() {
		if b.C >= 128 {
			return False // non-ASCII constants are outside the claim; a single byte is never a full rune
		}
		return ConstBool(set[b.C])
	}
	r := False
	for c := 0; c < 128; {
		if !set[c] {
			c++
			continue
		}
		d := c
		for d+1 < 128 && set[d+1] {
			d++
		}
		if c == d {
			r = Or(r, Eq(b, byteConsts[c]))
		} else if c == 0 && d == 127 {
			r = True
		} else if c == 0 {
			r = Or(r, Ule(b, byteConsts[d]))
		} else {
			r = Or(r, And(Ule(byteConsts[c], b), Ule(b, byteConsts[d])))
		}
		c = d + 1
	}
	return r
}

func isWordByte(b *Term) *Term {
	in := func(lo, hi byte) *Term { return And(Ule(byteConsts[lo], b), Ule(b, byteConsts[hi])) }
	return OrN(in('a', 'z'), in('A', 'Z'), in('0', '9'), Eq(b, byteConsts['_']))
}

// emptyCond gives the condition for the empty-width assertions op at position i of input s.
func emptyCond(op syntax.EmptyOp, s []*Term, i int) *Term {
	n := len(s)
	r := True
	if op&syntax.EmptyBeginText != 0 {
		r = And(r, ConstBool(i == 0))
	}
	if op&syntax.EmptyEndText != 0 {
		r = And(r, ConstBool(i == n))
	}
	if op&syntax.EmptyBeginLine != 0 {
		if i > 0 {
			r = And(r, Eq(s[i-1], byteConsts['\n']))
		}
	}
	if op&syntax.EmptyEndLine != 0 {
		if i < n {
			r = And(r, Eq(s[i], byteConsts['\n']))
		}
	}
	if op&(syntax.EmptyWordBoundary|syntax.EmptyNoWordBoundary) != 0 {
		before, after := False, False
		if i > 0 {
			before = isWordByte(s[i-1])
		}
		if i < n {
			after = isWordByte(s[i])
		}
		bd := Not(Eq(before, after))
		if op&syntax.EmptyWordBoundary != 0 {
			r = And(r, bd)
		}
		if op&syntax.EmptyNoWordBoundary != 0 {
			r = And(r, Not(bd))
		}
	}
	return r
}

// regexMatch encodes "re matches somewhere in s" (unanchored search, as Regexp.Match) as a Bool term
// by unrolling the NFA of the real syntax.Prog over the len(s) symbolic bytes. Bytes are assumed ASCII.
func regexMatch(h *hostRegexp, s []*Term) *Term {
	allConc := true
	for _, b := range s {
		if !b.IsConst() {
			allConc = false
			E.assumeASCII(b)
		}
	}
	if allConc {
		bs := make([]byte, len(s))
		for i, b := range s {
			bs[i] = byte(b.C)
		}
		return ConstBool(h.re.Match(bs))
	}
	E.regexEncodings++
	return nfaMatch(h.prog, s)
}

func nfaMatch(prog *syntax.Prog, s []*Term) *Term {
	n := len(s)
	np := len(prog.Inst)
	matched := False
	// cur[pc]: condition that a thread sits at consuming/match instruction pc at position i
	var next []*Term
	for i := 0; i <= n; i++ {
		cur := make([]*Term, np)
		for k := range cur {
			cur[k] = False
		}
		seen := map[[2]int]bool{}
		var add func(pc int, cond *Term)
		add = func(pc int, cond *Term) {
			if cond.IsFalse() {
				return
			}
			key := [2]int{pc, cond.ID}
			if seen[key] {
				return
			}
			seen[key] = true
			inst := &prog.Inst[pc]
			switch inst.Op {
			case syntax.InstFail:
			case syntax.InstAlt, syntax.InstAltMatch:
				add(int(inst.Out), cond)
				add(int(inst.Arg), cond)
			case syntax.InstNop, syntax.InstCapture:
				add(int(inst.Out), cond)
			case syntax.InstEmptyWidth:
				add(int(inst.Out), And(cond, emptyCond(syntax.EmptyOp(inst.Arg), s, i)))
			case syntax.InstMatch, syntax.InstRune, syntax.InstRune1, syntax.InstRuneAny, syntax.InstRuneAnyNotNL:
				cur[pc] = Or(cur[pc], cond)
			default:
				panic(fmt.Sprintf("nfa: unknown inst op %v", inst.Op))
			}
		}
		// unanchored search: a new thread may start at every position
		add(prog.Start, True)
		if next != nil {
			for pc, c := range next {
				if c != nil && !c.IsFalse() {
					add(pc, c)
				}
			}
		}
		next = make([]*Term, np)
		for pc := 0; pc < np; pc++ {
			c := cur[pc]
			if c.IsFalse() {
				continue
			}
			inst := &prog.Inst[pc]
			if inst.Op == syntax.InstMatch {
				matched = Or(matched, c)
				continue
			}
			if i < n {
				step := And(c, byteClass(inst, s[i]))
				out := int(inst.Out)
				if next[out] == nil {
					next[out] = step
				} else {
					next[out] = Or(next[out], step)
				}
			}
		}
	}
	return matched
}

func init() {
	reg("(*regexp.Regexp).FindSubmatchIndex", func(fr *frame, args []value) value {
		h := hostRe(args[0])
		key := bytesToTerms(args[1])
		if bs, ok := concBytes(args[1]); ok {
			m := h.re.FindSubmatchIndex(bs)
			if m == nil {
				return []value(nil)
			}
			r := make([]value, len(m))
			for i, x := range m {
				r[i] = mkI(x)
			}
			return r
		}
		// symbolic subject: the match bit is the NFA encoding; the indices are opaque
		if !E.branch(regexMatch(h, key)) {
			return []value(nil)
		}
		n := 2 * (h.re.NumSubexp() + 1)
		r := make([]value, n)
		for i := range r {
			r[i] = opaqueIndex
		}
		return r
	})
	reg("(*regexp.Regexp).Expand", func(fr *frame, args []value) value {
		h := hostRe(args[0])
		dst, _ := args[1].([]value)
		tmpl := args[2]
		src := args[3]
		match, _ := args[4].([]value)
		concrete := true
		for _, m := range match {
			if m == value(opaqueIndex) {
				concrete = false
			}
		}
		if concrete {
			d, ok1 := concBytes(dst)
			t, ok2 := concBytes(tmpl)
			s, ok3 := concBytes(src)
			if ok1 && ok2 && ok3 {
				mi := make([]int, len(match))
				for i, m := range match {
					mi[i] = int(m.(*Term).Int64())
				}
				return goBytesToSlice(h.re.Expand(d, t, s, mi))
			}
		}
		// opaque expansion: an injective function of (template, subject)
		out := append([]value(nil), dst...)
		out = append(out, goBytesToSlice([]byte("<exp:"))...)
		out = append(out, termsToSlice(bytesToTerms(tmpl))...)
		out = append(out, byteConsts[':'])
		out = append(out, termsToSlice(bytesToTerms(src))...)
		out = append(out, byteConsts['>'])
		return out
	})
	reg("(*regexp.Regexp).NumSubexp", func(fr *frame, args []value) value { return mkI(hostRe(args[0]).re.NumSubexp()) })
	reg("(*regexp.Regexp).LiteralPrefix", func(fr *frame, args []value) value {
		p, complete := hostRe(args[0]).re.LiteralPrefix()
		return tuple{mkStr(p), ConstBool(complete)}
	})
	reg("(*regexp.Regexp).String", func(fr *frame, args []value) value { return mkStr(hostRe(args[0]).re.String()) })
	reg("(*regexp.Regexp).SubexpNames", func(fr *frame, args []value) value {
		var out []value
		for _, n := range hostRe(args[0]).re.SubexpNames() {
			out = append(out, mkStr(n))
		}
		return out
	})
}

var opaqueIndex = Var("v_opaque_regex_index", BV(64))

func init() {
	reg("(*regexp.Regexp).ReplaceAll", func(fr *frame, args []value) value {
		h := hostRe(args[0])
		src, ok1 := concBytes(args[1])
		repl, ok2 := concBytes(args[2])
		if ok1 && ok2 {
			return goBytesToSlice(h.re.ReplaceAll(src, repl))
		}
		// opaque: an injective function of (template, subject), distinct from Expand's
		out := goBytesToSlice([]byte("<replaceall:" + h.re.String() + ":"))
		out = append(out, termsToSlice(bytesToTerms(args[2]))...)
		out = append(out, byteConsts[':'])
		out = append(out, termsToSlice(bytesToTerms(args[1]))...)
		out = append(out, byteConsts['>'])
		return out
	})
	reg("(*regexp.Regexp).ReplaceAllString", func(fr *frame, args []value) value {
		h := hostRe(args[0])
		src, ok1 := args[1].(Str).concrete()
		repl, ok2 := args[2].(Str).concrete()
		if ok1 && ok2 {
			return mkStr(h.re.ReplaceAllString(src, repl))
		}
		E.inconclusive("regexp.ReplaceAllString on symbolic input")
		return nil
	})
}
