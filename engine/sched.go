package main

import (
	"fmt"
	"go/token"
	"go/types"
	"os"
	"runtime/debug"

	"golang.org/x/tools/go/ssa"
)

const (
	gRunnable = iota
	gRunning
	gBlocked
	gDone
	gFrozen
	gSleeping
)

type selCase struct {
	ch   *Chan
	send bool
	val  value
}

type G struct {
	id      int
	wake    chan struct{}
	doneCh  chan struct{}
	state   int
	started bool
	exiting bool
	isMain  bool
	fn      value
	args    []value
	pos     token.Pos
	cases   []selCase
	poll    func() bool
	resIdx  int
	resVal  value
	resOk   bool
	top     *frame
	why     string
	wakeAt  int64 // virtual ns, for gSleeping
	rlocks  map[*value]int // RWMutexes this goroutine holds for reading
}

type Chan struct {
	id     int
	cap    int
	buf    []value
	closed bool
	elem   types.Type
	name   string
	// time.Timer channels: a timer fires once and must be re-armed with Reset (C17h)
	timer    bool
	disarmed bool
}

var chanSeq int

func newChan(n int, elem types.Type) *Chan {
	chanSeq++
	return &Chan{id: chanSeq, cap: n, elem: elem}
}

func (e *Engine) spawn(fn value, args []value, pos token.Pos) *G {
	g := &G{id: len(e.gs), wake: make(chan struct{}), doneCh: make(chan struct{}), state: gRunnable, fn: fn, args: args, pos: pos}
	e.gs = append(e.gs, g)
	return g
}

func protect(f func()) (p interface{}) {
	defer func() { p = recover() }()
	f()
	return nil
}

func (e *Engine) gmain(g *G) {
	defer close(g.doneCh)
	p := protect(func() { callValue(nil, g.pos, g.fn, g.args) })
	g.exiting = true
	g.state = gDone
	if p == nil {
		// normal completion: pass the baton
		p = protect(func() {
			next := e.pick(g)
			for next == nil {
				e.idleWakeups++
				if e.idleWakeups > 200 || !e.advanceClock(longSleep-1) {
					e.deadlock()
					e.endPath(e.outcome.Kind, e.outcome.Detail)
				}
				next = e.pick(g)
			}
			e.resume(next)
		})
		if p == nil {
			return
		}
	}
	switch p := p.(type) {
	case abortSignal:
		return
	case pathEndSignal:
	case targetPanic:
		e.uncaughtPanic(p)
	default:
		e.enginePanic = fmt.Sprintf("%v\n%s", p, debug.Stack())
	}
	e.aborting = true
	e.wakeMain()
}

func (e *Engine) wakeMain() {
	m := e.gs[0]
	e.curG = m
	m.wake <- struct{}{}
}

func (e *Engine) uncaughtPanic(p targetPanic) {
	if !e.aborting {
		e.outcome = Outcome{"panic", p.String()}
	}
}

func (e *Engine) deadlock() {
	if e.aborting {
		return
	}
	desc := ""
	for _, g := range e.gs {
		if g.state == gBlocked {
			desc += fmt.Sprintf("[g%d blocked: %s] ", g.id, g.why)
		}
	}
	e.outcome = Outcome{"deadlock", desc}
}

// ready reports whether g could run now.
func (g *G) ready() bool {
	switch g.state {
	case gRunnable:
		return true
	case gBlocked:
		return g.poll != nil && g.poll()
	case gSleeping:
		return g.wakeAt <= E.vclock
	}
	return false
}

// advanceClock moves the virtual clock to the earliest sleeper whose wake-up time is <= limit.
func (e *Engine) advanceClock(limit int64) bool {
	best := int64(-1)
	for _, g := range e.gs {
		if g.state == gSleeping && g.wakeAt <= limit && (best < 0 || g.wakeAt < best) {
			best = g.wakeAt
		}
	}
	if best < 0 {
		return false
	}
	if best > e.vclock {
		e.vclock = best
	}
	return true
}

const longSleep = int64(1) << 62

// sleep parks g for d virtual nanoseconds (d < 0: a symbolic/unknown duration, treated as very long).
func (e *Engine) sleep(g *G, d int64) {
	if d < 0 {
		g.wakeAt = longSleep
	} else {
		g.wakeAt = e.vclock + d
	}
	g.state = gSleeping
	g.why = "time.Sleep at " + e.where(g)
	e.yield(g)
}

// pick chooses the next goroutine to run (other than from, unless from is the only one).
func (e *Engine) pick(from *G) *G {
	var cands []*G
	for _, g := range e.gs[1:] {
		if g != from && g.ready() {
			cands = append(cands, g)
		}
	}
	if len(cands) > 0 {
		if e.schedFork && len(cands) > 1 {
			return cands[e.choose(len(cands))]
		}
		return cands[0]
	}
	if from != nil && from.state != gDone && from.ready() {
		return from
	}
	if m := e.gs[0]; m != from && m.ready() {
		return m
	}
	return nil
}

// resume transfers control to g (the caller must park or exit afterwards).
func (e *Engine) resume(g *G) {
	g.state = gRunning
	g.poll = nil
	e.curG = g
	if !g.started && !g.isMain {
		g.started = true
		go e.gmain(g)
		return
	}
	g.wake <- struct{}{}
}

// park waits until someone resumes g.
func (e *Engine) park(g *G) {
	<-g.wake
	if e.aborting {
		panic(abortSignal{})
	}
	e.curG = g
	g.state = gRunning
}

// yield gives other goroutines a chance; g must have set its state (runnable or blocked).
func (e *Engine) yield(g *G) {
	next := e.pick(g)
	if next == g {
		g.state = gRunning
		g.poll = nil
		return
	}
	for next == nil {
		// nothing can run: let virtual time pass (bounded) before declaring a deadlock
		e.idleWakeups++
		if e.idleWakeups > 200 || !e.advanceClock(longSleep-1) {
			e.deadlock()
			e.endPath(e.outcome.Kind, e.outcome.Detail)
		}
		next = e.pick(g)
		if next == g {
			g.state = gRunning
			g.poll = nil
			return
		}
	}
	e.resume(next)
	e.park(g)
}

// preemptPoint: called before every synchronisation operation (mutex, atomic, channel, WaitGroup) and after
// a go statement. While the path has preemptions left (verifPreemptions) the solver-side decision tree
// forks here over "go on" and "switch to any other goroutine that can run": the interleaving becomes a
// decision variable of the exploration, bounded in the CHESS manner by the number of preemptions.
// Plain memory accesses are not preemption points: schedules that differ only in the order of
// unsynchronised accesses (data races) are outside the bound.
func (e *Engine) preemptPoint(g *G, what string) {
	if e.preemptLeft <= 0 || g == nil || e.curG != g || g.state != gRunning {
		return
	}
	var cands []*G
	for _, o := range e.gs {
		if o != g && o.ready() {
			cands = append(cands, o)
		}
	}
	if len(cands) == 0 {
		return
	}
	k := e.choose(len(cands) + 1)
	if k == 0 {
		return
	}
	next := cands[k-1]
	e.preemptLeft--
	e.schedTrace = append(e.schedTrace, fmt.Sprintf("g%d preempted before %s at %s, g%d runs", g.id, what, e.where(g), next.id))
	g.state = gRunnable
	e.resume(next)
	e.park(g)
}

// blockUntil parks g until cond holds.
func (e *Engine) blockUntil(g *G, why string, cond func() bool) {
	if cond() {
		return
	}
	e.blockingOps++
	g.state = gBlocked
	g.poll = cond
	g.why = why
	e.yield(g)
}

// settle lets all other goroutines run until none can make progress.
func (e *Engine) settle(g *G) {
	horizon := e.vclock + 100*1000*1000 // sleeps ending within 100 virtual ms are waited for
	for {
		any := false
		for _, o := range e.gs {
			if o != g && !o.isMain && o.ready() {
				any = true
			}
		}
		if !any {
			if e.advanceClock(horizon) {
				continue
			}
			return
		}
		g.state = gRunnable
		e.yield(g)
	}
}

// ---- channel operations

func (e *Engine) findPartner(self *G, ch *Chan, wantSend bool) (*G, int) {
	for _, g := range e.gs {
		if g == self || g.state != gBlocked || g.cases == nil {
			continue
		}
		for i, c := range g.cases {
			if c.ch == ch && c.send == wantSend {
				return g, i
			}
		}
	}
	return nil, -1
}

func (e *Engine) complete(g *G, idx int, v value, ok bool) {
	g.resIdx, g.resVal, g.resOk = idx, v, ok
	g.cases = nil
	g.state = gRunnable
}

func (e *Engine) caseReady(self *G, c selCase) bool {
	if c.ch == nil {
		return false
	}
	if c.send {
		if c.ch.closed {
			return true // will panic
		}
		if len(c.ch.buf) < c.ch.cap {
			return true
		}
		p, _ := e.findPartner(self, c.ch, false)
		return p != nil
	}
	if len(c.ch.buf) > 0 || c.ch.closed {
		return true
	}
	p, _ := e.findPartner(self, c.ch, true)
	return p != nil
}

// perform executes a ready case.
func (e *Engine) perform(self *G, c selCase) (value, bool) {
	ch := c.ch
	if c.send {
		if ch.closed {
			goPanic("send on closed channel")
		}
		if p, i := e.findPartner(self, ch, false); p != nil && len(ch.buf) == 0 {
			e.complete(p, i, c.val, true)
			return nil, true
		}
		ch.buf = append(ch.buf, c.val)
		return nil, true
	}
	if len(ch.buf) > 0 {
		v := ch.buf[0]
		ch.buf = append([]value(nil), ch.buf[1:]...)
		if p, i := e.findPartner(self, ch, true); p != nil {
			ch.buf = append(ch.buf, p.cases[i].val)
			e.complete(p, i, nil, true)
		}
		return v, true
	}
	if p, i := e.findPartner(self, ch, true); p != nil {
		v := p.cases[i].val
		e.complete(p, i, nil, true)
		return v, true
	}
	if ch.closed {
		return nil, false
	}
	panic("perform: case not ready")
}

// selectOp implements select over cases; returns chosen index (-1 for default).
func (e *Engine) selectOp(g *G, cases []selCase, hasDefault bool, why string) (int, value, bool) {
	e.preemptPoint(g, "channel operation")
	var ready []int
	for i, c := range cases {
		if e.caseReady(g, c) {
			ready = append(ready, i)
		}
	}
	if len(ready) > 0 {
		k := 0
		if len(ready) > 1 {
			k = e.choose(len(ready))
			e.choices = append(e.choices, ready[k])
		}
		idx := ready[k]
		v, ok := e.perform(g, cases[idx])
		return idx, v, ok
	}
	if hasDefault {
		return -1, nil, false
	}
	// block
	e.blockingOps++
	g.state = gBlocked
	g.cases = cases
	g.poll = nil
	g.why = why
	e.yield(g)
	return g.resIdx, g.resVal, g.resOk
}

func (e *Engine) where(g *G) string {
	for fr := g.top; fr != nil; fr = fr.caller {
		if fr.curInstr != nil && fr.curInstr.Pos().IsValid() {
			return e.prog.Fset.Position(fr.curInstr.Pos()).String()
		}
	}
	return "?"
}

func (e *Engine) chanSend(g *G, ch *Chan, v value) {
	e.selectOp(g, []selCase{{ch: ch, send: true, val: v}}, false, "send at "+e.where(g))
}

func (e *Engine) chanRecv(g *G, ch *Chan) (value, bool) {
	_, v, ok := e.selectOp(g, []selCase{{ch: ch}}, false, "recv at "+e.where(g))
	return v, ok
}

func (e *Engine) chanClose(ch *Chan) {
	if ch == nil {
		goPanic("close of nil channel")
	}
	if ch.closed {
		goPanic("close of closed channel")
	}
	ch.closed = true
	// wake all blocked receivers; blocked senders panic (approximated: left blocked -> they become ready)
	for _, g := range e.gs {
		if g.state != gBlocked || g.cases == nil {
			continue
		}
		for i, c := range g.cases {
			if c.ch == ch && !c.send {
				e.complete(g, i, nil, false)
				break
			}
		}
	}
}

func (e *Engine) selectInstr(fr *frame, instr *ssa.Select) value {
	if e.traceCalls && instr.Blocking {
		e.traceLog = append(e.traceLog, traceEvent{fn: "op:blocking-select in " + fr.fn.String()})
	}
	var cases []selCase
	for _, st := range instr.States {
		ch, _ := fr.get(st.Chan).(*Chan)
		c := selCase{ch: ch}
		if st.Dir == types.SendOnly {
			c.send = true
			c.val = fr.get(st.Send)
		}
		cases = append(cases, c)
	}
	idx, v, ok := e.selectOp(fr.g, cases, !instr.Blocking, "select at "+e.where(fr.g))
	r := tuple{mkI(idx), ConstBool(ok)}
	for i, st := range instr.States {
		if st.Dir == types.RecvOnly {
			var rv value
			if i == idx && ok {
				rv = v
			} else {
				rv = zero(st.Chan.Type().Underlying().(*types.Chan).Elem())
			}
			r = append(r, rv)
		}
	}
	return r
}

// runPath executes the harness once along the current decision prefix.
func (e *Engine) runPath(fn *ssa.Function) {
	main := &G{id: 0, wake: make(chan struct{}), isMain: true, state: gRunning, started: true}
	e.gs = []*G{main}
	e.curG = main
	e.enginePanic = ""
	func() {
		defer func() {
			p := recover()
			switch p := p.(type) {
			case nil:
			case pathEndSignal, abortSignal:
			case targetPanic:
				e.uncaughtPanic(p)
			default:
				fmt.Fprintf(os.Stderr, "ENGINE PANIC: %v\n%s\n", p, debug.Stack())
				e.outcome = Outcome{"inconclusive", fmt.Sprintf("engine panic: %v", p)}
			}
		}()
		callSSA(nil, token.NoPos, fn, nil, nil)
	}()
	// teardown
	e.aborting = true
	for _, g := range e.gs[1:] {
		if !g.started {
			continue
		}
		if !g.exiting {
			select {
			case g.wake <- struct{}{}:
			case <-g.doneCh:
			}
		}
		<-g.doneCh
	}
	if e.enginePanic != "" {
		fmt.Fprintf(os.Stderr, "ENGINE PANIC (goroutine): %s\n", e.enginePanic)
		e.outcome = Outcome{"inconclusive", "engine panic: " + firstLine(e.enginePanic)}
	}
	// classify panics / exits / deadlocks as violations when the harness asks for it
	switch e.outcome.Kind {
	case "panic", "exit", "deadlock", "hang":
		if e.reportPanics {
			label := e.outcome.Kind + ":" + firstLine(e.outcome.Detail)
			if _, seen := e.Violations[label]; !seen {
				e.aborting = false
				var m Model
				func() {
					defer func() { recover() }()
					m = e.pathModel()
				}()
				e.recordViolation(label, e.outcome.Kind, e.outcome.Detail, m)
			}
		}
	}
}

func firstLine(s string) string {
	for i, c := range s {
		if c == '\n' {
			return s[:i]
		}
	}
	return s
}
