package main

// Kafka producer model for the kafkaMdm route (C16): sarama.NewClient / NewSyncProducerFromClient return host
// objects; the producer records, per SendMessages call, the bytes of every message value AS THEY ARE WHEN THE
// CALL IS MADE (sarama serialises them during the call) and can be told to fail the first k calls.
// Nothing of the Kafka wire protocol is modelled.

import (
	"go/types"
)

type kafkaState struct {
	sent     [][]value // message values, one entry per message, in send order (successful calls only)
	parts    []*Term
	calls    int
	failures int // remaining SendMessages calls that fail
}

func (e *Engine) kafka() *kafkaState {
	if e.kafkaSt == nil {
		e.kafkaSt = &kafkaState{}
	}
	return e.kafkaSt
}

func init() {
	reg("github.com/Shopify/sarama.NewClient", func(fr *frame, args []value) value {
		E.StubsUsed["sarama.NewClient / SyncProducer (engine model: records message values at SendMessages time)"] = true
		h := &hostObj{name: "sarama.Client", methods: map[string]*hostFunc{}}
		h.methods["Partitions"] = &hostFunc{name: "Partitions", f: func(fr *frame, a []value) value {
			return tuple{[]value{ConstBV(32, 0), ConstBV(32, 1)}, nilError()}
		}}
		h.methods["Close"] = &hostFunc{name: "Close", f: func(fr *frame, a []value) value { return nilError() }}
		return tuple{iface{t: types.NewPointer(pkgType("github.com/Shopify/sarama", "client")), v: h}, nilError()}
	})
	reg("github.com/Shopify/sarama.NewSyncProducerFromClient", func(fr *frame, args []value) value {
		h := &hostObj{name: "sarama.SyncProducer", methods: map[string]*hostFunc{}}
		h.methods["SendMessages"] = &hostFunc{name: "SendMessages", f: func(fr *frame, a []value) value {
			k := E.kafka()
			k.calls++
			if k.failures > 0 {
				k.failures--
				t := pkgType("github.com/Shopify/sarama", "ProducerErrors")
				return iface{t: t, v: []value{}}
			}
			// receiver is a[0]; the message slice a[1]
			msgs := a[len(a)-1].([]value)
			mt := pkgType("github.com/Shopify/sarama", "ProducerMessage")
			for _, m := range msgs {
				st := (*m.(*value)).(structure)
				val := st[fieldIndex(mt, "Value")].(iface)
				b, _ := val.v.([]value)
				k.sent = append(k.sent, append([]value(nil), b...))
				k.parts = append(k.parts, st[fieldIndex(mt, "Partition")].(*Term))
			}
			return nilError()
		}}
		h.methods["Close"] = &hostFunc{name: "Close", f: func(fr *frame, a []value) value { return nilError() }}
		return tuple{iface{t: types.NewPointer(pkgType("github.com/Shopify/sarama", "syncProducer")), v: h}, nilError()}
	})
	verifFuncs["verifKafkaNumSent"] = func(fr *frame, a []value) value { return mkI(len(E.kafka().sent)) }
	verifFuncs["verifKafkaSent"] = func(fr *frame, a []value) value {
		i := int(concInt(a[0], true))
		k := E.kafka()
		if i < 0 || i >= len(k.sent) {
			return []value{}
		}
		return append([]value(nil), k.sent[i]...)
	}
	verifFuncs["verifKafkaCalls"] = func(fr *frame, a []value) value { return mkI(E.kafka().calls) }
	verifFuncs["verifKafkaFailNext"] = func(fr *frame, a []value) value {
		E.kafka().failures = int(concInt(a[0], true))
		return nil
	}
}
