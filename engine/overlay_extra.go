package main

// -hdir2 <import path>=<file or directory>: additional harness overlays for packages that the package
// under test imports (e.g. an accessor for unexported fields of a dependency). A single .go file is
// overlaid as is; a directory contributes all its *.go files. No runtime (rt.go) is added: such files
// must not call verif* functions.

import (
	"flag"
	"fmt"
	"os"
	"path/filepath"
	"sort"
	"strings"
)

type multiFlag []string

func (m *multiFlag) String() string     { return strings.Join(*m, ",") }
func (m *multiFlag) Set(s string) error { *m = append(*m, s); return nil }

var extraOverlays multiFlag

func init() {
	flag.Var(&extraOverlays, "hdir2", "extra overlay `pkg=path` for a dependency package (repeatable)")
}

func addExtraOverlays(repo string, overlay map[string][]byte) error {
	const modPath = "github.com/grafana/carbon-relay-ng"
	for _, spec := range extraOverlays {
		i := strings.IndexByte(spec, '=')
		if i < 0 {
			return fmt.Errorf("-hdir2 %q: want pkg=path", spec)
		}
		pkg, path := spec[:i], spec[i+1:]
		rel := strings.TrimPrefix(strings.TrimPrefix(pkg, modPath), "/")
		pkgDir := filepath.Join(repo, rel)
		var files []string
		if st, err := os.Stat(path); err != nil {
			return err
		} else if st.IsDir() {
			files, _ = filepath.Glob(filepath.Join(path, "*.go"))
			sort.Strings(files)
		} else {
			files = []string{path}
		}
		for _, f := range files {
			b, err := os.ReadFile(f)
			if err != nil {
				return err
			}
			overlay[filepath.Join(pkgDir, "zz_verif_"+filepath.Base(f))] = b
		}
	}
	return nil
}
