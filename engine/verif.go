package main

import (
	"fmt"
	"strings"
)

// harness runtime functions, intercepted by name (package = harness package, name prefix "verif")

var verifFuncs = map[string]intrinsic{}

func init() {
	vf := verifFuncs
	vf["verifByte"] = func(fr *frame, a []value) value { return E.fresh(mustConcStr(a[0]), BV(8)) }
	vf["verifBool"] = func(fr *frame, a []value) value { return E.fresh(mustConcStr(a[0]), BoolSort) }
	vf["verifUint16"] = func(fr *frame, a []value) value { return E.fresh(mustConcStr(a[0]), BV(16)) }
	vf["verifUint32"] = func(fr *frame, a []value) value { return E.fresh(mustConcStr(a[0]), BV(32)) }
	vf["verifUint64"] = func(fr *frame, a []value) value { return E.fresh(mustConcStr(a[0]), BV(64)) }
	vf["verifInt64"] = func(fr *frame, a []value) value { return E.fresh(mustConcStr(a[0]), BV(64)) }
	vf["verifInt32"] = func(fr *frame, a []value) value { return E.fresh(mustConcStr(a[0]), BV(32)) }
	vf["verifFloat64"] = func(fr *frame, a []value) value { return E.fresh(mustConcStr(a[0]), FP64) }
	vf["verifInt"] = func(fr *frame, a []value) value {
		v := E.fresh(mustConcStr(a[0]), BV(64))
		lo, hi := a[1].(*Term), a[2].(*Term)
		E.assume(And(Sle(lo, v), Sle(v, hi)))
		return v
	}
	vf["verifBytes"] = func(fr *frame, a []value) value {
		name := mustConcStr(a[0])
		n := int(concInt(a[1], true))
		r := make([]value, n)
		for i := range r {
			r[i] = E.fresh(fmt.Sprintf("%s[%d]", name, i), BV(8))
		}
		return r
	}
	vf["verifString"] = func(fr *frame, a []value) value {
		name := mustConcStr(a[0])
		n := int(concInt(a[1], true))
		r := make([]*Term, n)
		for i := range r {
			r[i] = E.fresh(fmt.Sprintf("%s[%d]", name, i), BV(8))
		}
		return Str{r}
	}
	vf["verifChoice"] = func(fr *frame, a []value) value {
		name := mustConcStr(a[0])
		n := int(concInt(a[1], true))
		if n <= 0 {
			E.endPath("infeasible", "verifChoice(0)")
		}
		// a structural choice is recorded as a variable so that replay sees it
		v := E.fresh(name, BV(64))
		conds := make([]*Term, n)
		for i := range conds {
			conds[i] = Eq(v, mkI(i))
		}
		k := E.chooseCond(conds)
		return mkI(k)
	}
	vf["verifAssume"] = func(fr *frame, a []value) value { E.assume(a[0].(*Term)); return nil }
	vf["verifAssert"] = func(fr *frame, a []value) value {
		E.assert(a[0].(*Term), mustConcStr(a[1]))
		return nil
	}
	vf["verifCover"] = func(fr *frame, a []value) value {
		l := mustConcStr(a[0])
		E.covers[l] = true
		if l == "end" && E.Witness == nil {
			// reachability witness: a model of the first path that reaches the end of the harness
			if m := E.pathModel(); m != nil {
				w := map[string]uint64{}
				for i, pv := range E.pathVars {
					w[E.varOrder[i]] = m[pv.Name]
				}
				E.Witness = w
			}
		}
		return nil
	}
	vf["verifFail"] = func(fr *frame, a []value) value {
		E.assert(False, mustConcStr(a[0]))
		return nil
	}
	vf["verifSettle"] = func(fr *frame, a []value) value { E.settle(fr.g); return nil }
	vf["verifConcretize"] = func(fr *frame, a []value) value {
		t := a[0].(*Term)
		return ConstBV(t.S.W, E.concretize(t, 70000))
	}
	vf["verifSameBacking"] = func(fr *frame, a []value) value {
		x, _ := a[0].([]value)
		y, _ := a[1].([]value)
		return ConstBool(sameBacking(x, y))
	}
	vf["verifIsSymbolic"] = func(fr *frame, a []value) value { return True }
	vf["verifReportPanics"] = func(fr *frame, a []value) value { E.reportPanics = a[0].(*Term).IsTrue(); return nil }
	vf["verifPreemptions"] = func(fr *frame, a []value) value { E.preemptLeft = int(concInt(a[0], true)); return nil }
	vf["verifSchedFork"] = func(fr *frame, a []value) value { E.schedFork = a[0].(*Term).IsTrue(); return nil }
	vf["verifTraceMark"] = func(fr *frame, a []value) value {
		E.traceCalls = true
		return mkI(len(E.traceLog))
	}
	vf["verifCalledSince"] = func(fr *frame, a []value) value {
		mark := int(concInt(a[0], true))
		pat := mustConcStr(a[1])
		n := 0
		for _, ev := range E.traceLog[mark:] {
			if strings.Contains(ev.fn, pat) {
				n++
			}
		}
		return mkI(n)
	}
	vf["verifBlockingOps"] = func(fr *frame, a []value) value { return mkI(E.blockingOps) }
	vf["verifLog"] = func(fr *frame, a []value) value {
		if E.verbose {
			fmt.Println("verifLog:", toString(a[0]))
		}
		return nil
	}
}

// sameBacking: do two slices share their backing array (address ranges over cap overlap)?
func sameBacking(x, y []value) bool {
	if cap(x) == 0 || cap(y) == 0 {
		return false
	}
	xf := x[:cap(x)]
	yf := y[:cap(y)]
	// compare addresses of last elements' ends: two windows overlap iff some element pointer is shared.
	// The windows are contiguous views of Go arrays, so check whether the first element of one lies within the other.
	for i := range xf {
		if &xf[i] == &yf[0] {
			return true
		}
	}
	for i := range yf {
		if &yf[i] == &xf[0] {
			return true
		}
	}
	return false
}

func init() {
	verifFuncs["verifParam"] = func(fr *frame, a []value) value {
		return mkStr(E.params[mustConcStr(a[0])])
	}
}

func init() {
	verifFuncs["verifOr"] = func(fr *frame, a []value) value { return Or(a[0].(*Term), a[1].(*Term)) }
	verifFuncs["verifAnd"] = func(fr *frame, a []value) value { return And(a[0].(*Term), a[1].(*Term)) }
}

func init() {
	// verifStepLimit(n): from now on the path must finish within n more interpreter steps; otherwise it is
	// reported as a hang (busy loop). n <= 0 switches the limit off.
	verifFuncs["verifStepLimit"] = func(fr *frame, a []value) value {
		n := int(concInt(a[0], true))
		if n <= 0 {
			E.hangLimit = 0
		} else {
			E.hangLimit = E.steps + n
		}
		return nil
	}
}
