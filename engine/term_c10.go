package main

// Sound syntactic simplifications needed by the aggregator checks (C10): bucket arithmetic
// `ts - ts % interval` on zero-extended narrow values and time.Duration arithmetic
// `(-wait * 1e9) / 1e9`. They keep the solver away from 64-bit dividers / multipliers.
// Called from bvBin (term.go) before the generic identities.

import "math"

// srange: a syntactic signed range [lo,hi] of a 64-bit term, ok=false when unknown.
func srange(t *Term) (lo, hi int64, ok bool) {
	if t.S.K != KBV || t.S.W != 64 {
		return 0, 0, false
	}
	switch t.Op {
	case OConst:
		return int64(t.C), int64(t.C), true
	case OZExt:
		u := ubound(t)
		if u <= math.MaxInt64 {
			return 0, int64(u), true
		}
	case ONeg:
		l, h, k := srange(t.Args[0])
		if k && l != math.MinInt64 {
			return -h, -l, true
		}
	case OMul:
		if t.Args[1].IsConst() {
			l, h, k := srange(t.Args[0])
			c := int64(t.Args[1].C)
			if k {
				a, ok1 := mulNoOvf(l, c)
				b, ok2 := mulNoOvf(h, c)
				if ok1 && ok2 {
					if a > b {
						a, b = b, a
					}
					return a, b, true
				}
			}
		}
	}
	return 0, 0, false
}

func mulNoOvf(a, b int64) (int64, bool) {
	if a == 0 || b == 0 {
		return 0, true
	}
	r := a * b
	if r/b != a || (a == -1 && b == math.MinInt64) || (b == -1 && a == math.MinInt64) {
		return 0, false
	}
	return r, true
}

func bitsFor(u uint64) int {
	switch {
	case u < 1<<8:
		return 8
	case u < 1<<16:
		return 16
	case u < 1<<32:
		return 32
	}
	return 64
}

func narrowable(t *Term) bool { return t.IsConst() || t.Op == OZExt }

// simplifyBvBinC10 returns nil when no rule applies.
func simplifyBvBinC10(op Op, a, b *Term) *Term {
	w := a.S.W
	switch op {
	case OURem:
		// urem of zero-extended operands is the zero-extended narrow urem (x urem 0 = x at either width)
		if w > 8 && w <= 64 && narrowable(a) && narrowable(b) && !(a.IsConst() && b.IsConst()) {
			n := bitsFor(ubound(a))
			if m := bitsFor(ubound(b)); m > n {
				n = m
			}
			if n < w {
				return ZExt(bvBin(OURem, Extract(n-1, 0, a), Extract(n-1, 0, b)), w)
			}
		}
	case OSDiv, OSRem:
		// (x * c) / c = x and (x * c) % c = 0 when x * c cannot overflow
		if w == 64 && b.IsConst() && int64(b.C) > 1 && a.Op == OMul && a.Args[1].IsConst() && a.Args[1].C == b.C {
			if _, _, ok := srange(a); ok {
				if op == OSDiv {
					return a.Args[0]
				}
				return ConstBV(64, 0)
			}
		}
	}
	return nil
}
