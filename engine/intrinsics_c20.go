package main

// Intrinsics added for C20 (configuration / interpolation checks).

import (
	"fmt"
	"regexp/syntax"
	"strings"

	"golang.org/x/tools/go/ssa"
)

func init() {
	// os.Setenv: per-path environment (read back by the os.Getenv model).
	reg("os.Setenv", func(fr *frame, args []value) value {
		E.env[mustConcStr(args[0])] = args[1]
		return nilError()
	})
	reg("os.Unsetenv", func(fr *frame, args []value) value {
		delete(E.env, mustConcStr(args[0]))
		return nilError()
	})

	// The two byte classifiers of os.Expand as single Boolean terms (exact transcriptions of
	// os.isShellSpecialVar / os.isAlphaNum): executed from SSA the 16-way switch forks once per case.
	reg("os.isShellSpecialVar", func(fr *frame, args []value) value {
		c := args[0].(*Term)
		r := And(Ule(byteConsts['0'], c), Ule(c, byteConsts['9']))
		for _, k := range []byte{'*', '#', '$', '@', '!', '?', '-'} {
			r = Or(r, Eq(c, byteConsts[k]))
		}
		return r
	})
	reg("os.isAlphaNum", func(fr *frame, args []value) value {
		c := args[0].(*Term)
		in := func(lo, hi byte) *Term { return And(Ule(byteConsts[lo], c), Ule(c, byteConsts[hi])) }
		return OrN(Eq(c, byteConsts['_']), in('0', '9'), in('a', 'z'), in('A', 'Z'))
	})
}

// ---- regexp.Find for lexers (github.com/taylorchu/toki) -------------------------------------------------
//
// Concrete subject: the real regexp decides. Partly symbolic subject: supported only when every symbolic
// byte is a *digit byte* (created by verifDigits, which constrains it to '0'..'9') and the pattern is
// digit-uniform, i.e. every rune instruction of its syntax.Prog accepts either all of '0'..'9' or none of
// them. Then the set of NFA runs, and therefore the leftmost-first match and its indices, are the same for
// every digit assignment, so one native run with the symbolic bytes replaced by '0' is exact.

type c20Digits struct{ ids map[int]bool }

func c20DigitSet() *c20Digits {
	if d, ok := E.ghost["c20.digits"].(*c20Digits); ok {
		return d
	}
	d := &c20Digits{ids: map[int]bool{}}
	E.ghost["c20.digits"] = d
	return d
}

var c20Uniform = map[*hostRegexp]bool{}

func c20DigitUniform(h *hostRegexp) bool {
	if u, ok := c20Uniform[h]; ok {
		return u
	}
	u := true
	for i := range h.prog.Inst {
		inst := &h.prog.Inst[i]
		switch inst.Op {
		case syntax.InstRune, syntax.InstRune1, syntax.InstRuneAny, syntax.InstRuneAnyNotNL:
			first := inst.MatchRune('0')
			for c := '1'; c <= '9'; c++ {
				if inst.MatchRune(c) != first {
					u = false
				}
			}
		}
	}
	c20Uniform[h] = u
	return u
}

// c20FindIndex returns the match indices of h on subject (nil = no match).
func c20FindIndex(h *hostRegexp, subject value) []int {
	ts := bytesToTerms(subject)
	bs := make([]byte, len(ts))
	symbolic := false
	for i, t := range ts {
		if t.IsConst() {
			bs[i] = byte(t.C)
			continue
		}
		if !c20DigitSet().ids[t.ID] {
			E.inconclusive("regexp.Find on symbolic subject (only verifDigits bytes are supported)")
		}
		symbolic = true
		bs[i] = '0'
	}
	if symbolic && !c20DigitUniform(h) {
		E.inconclusive("regexp.Find: pattern " + h.src + " distinguishes digits, subject has symbolic digits")
	}
	return h.re.FindIndex(bs)
}

func init() {
	reg("(*regexp.Regexp).Find", func(fr *frame, args []value) value {
		h := hostRe(args[0])
		b, _ := args[1].([]value)
		loc := c20FindIndex(h, b)
		if loc == nil {
			return []value(nil)
		}
		return b[loc[0]:loc[1]:loc[1]]
	})
	reg("(*regexp.Regexp).FindIndex", func(fr *frame, args []value) value {
		h := hostRe(args[0])
		b, _ := args[1].([]value)
		loc := c20FindIndex(h, b)
		if loc == nil {
			return []value(nil)
		}
		return []value{mkI(loc[0]), mkI(loc[1])}
	})

	// verifDigits(name, n): string of n fresh symbolic bytes, each constrained to '0'..'9' and remembered
	// as a digit byte for the lexer model above. Native twin: harness files (verifBytes + verifAssume).
	verifFuncs["verifDigits"] = func(fr *frame, a []value) value {
		name := mustConcStr(a[0])
		n := int(concInt(a[1], true))
		r := make([]*Term, n)
		for i := range r {
			r[i] = E.fresh(fmt.Sprintf("%s[%d]", name, i), BV(8))
			E.assume(And(Ule(byteConsts['0'], r[i]), Ule(r[i], byteConsts['9'])))
			c20DigitSet().ids[r[i].ID] = true
		}
		return Str{r}
	}
}

// ---- verifStubFunc(target, model): for the rest of the path, calls of the function named target
// ("import/path.Func") run the Go function named model instead (a harness-provided model of code that is
// outside the claim, e.g. a constructor that reads files and starts network workers). Natively a no-op:
// the replay runs the real function.

type stubTable struct{ m map[*ssa.Function]*ssa.Function }

func stubRedirect(fn *ssa.Function) *ssa.Function {
	t, ok := E.ghost["verif.stubs"].(*stubTable)
	if !ok {
		return nil
	}
	return t.m[fn]
}

func lookupFuncByName(full string) *ssa.Function {
	i := strings.LastIndexByte(full, '.')
	if i < 0 {
		E.inconclusive("verifStubFunc: bad function name " + full)
	}
	p := E.prog.ImportedPackage(full[:i])
	if p == nil {
		E.inconclusive("verifStubFunc: package not loaded: " + full[:i])
	}
	f := p.Func(full[i+1:])
	if f == nil {
		E.inconclusive("verifStubFunc: no function " + full)
	}
	return f
}

func init() {
	verifFuncs["verifStubFunc"] = func(fr *frame, a []value) value {
		target, model := lookupFuncByName(mustConcStr(a[0])), lookupFuncByName(mustConcStr(a[1]))
		t, ok := E.ghost["verif.stubs"].(*stubTable)
		if !ok {
			t = &stubTable{m: map[*ssa.Function]*ssa.Function{}}
			E.ghost["verif.stubs"] = t
		}
		t.m[target] = model
		E.StubsUsed["model:"+mustConcStr(a[0])] = true
		return nil
	}
}

// ---- package flag: command-line flags keep their default values (package main's initializer defines flags)
func init() {
	flagVar := func(fr *frame, args []value) value {
		cell := args[1] // (name, default, usage)
		return &cell
	}
	for _, k := range []string{"String", "Int", "Bool", "Int64", "Uint", "Uint64", "Float64", "Duration"} {
		reg("flag."+k, flagVar)
	}
}
