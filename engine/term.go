package main

// SMT terms: hash-consed, constant-folded, printed as SMT-LIB2.

import (
	"fmt"
	"math"
	"math/bits"
	"strconv"
	"strings"
)

type Kind uint8

const (
	KBool Kind = iota
	KBV
	KFP // float64 (11,53) or float32 (8,24) by width
)

type Sort struct {
	K Kind
	W int // bit width for BV; 64 or 32 for FP
}

func (s Sort) String() string {
	switch s.K {
	case KBool:
		return "Bool"
	case KBV:
		return fmt.Sprintf("(_ BitVec %d)", s.W)
	case KFP:
		if s.W == 32 {
			return "(_ FloatingPoint 8 24)"
		}
		return "(_ FloatingPoint 11 53)"
	}
	return "?"
}

var BoolSort = Sort{KBool, 0}

func BV(w int) Sort { return Sort{KBV, w} }

var FP64 = Sort{KFP, 64}
var FP32 = Sort{KFP, 32}

type Op uint8

const (
	OConst Op = iota
	OVar
	// bv
	OAdd
	OSub
	OMul
	OUDiv
	OURem
	OSDiv
	OSRem
	OAnd
	OOr
	OXor
	ONot
	ONeg
	OShl
	OLShr
	OAShr
	OConcat
	OExtract
	OZExt
	OSExt
	OIte
	OEq
	OUlt
	OUle
	OSlt
	OSle
	// bool
	OBAnd
	OBOr
	OBNot
	// fp
	OFAdd
	OFSub
	OFMul
	OFDiv
	OFNeg
	OFLt
	OFLe
	OFEq
	OFIsNaN
	OFFromSBV // bv -> fp (signed)
	OFFromUBV
	OFToSBV // fp -> bv RTZ
	OFToUBV
	OFToFP   // fp -> fp other width
	OFFromBits // reinterpret bv as fp
	OFSqrt
	OFAbs
	OUF // uninterpreted function application; name in Name
)

var opNames = map[Op]string{
	OAdd: "bvadd", OSub: "bvsub", OMul: "bvmul", OUDiv: "bvudiv", OURem: "bvurem", OSDiv: "bvsdiv", OSRem: "bvsrem",
	OAnd: "bvand", OOr: "bvor", OXor: "bvxor", ONot: "bvnot", ONeg: "bvneg", OShl: "bvshl", OLShr: "bvlshr", OAShr: "bvashr",
	OConcat: "concat", OIte: "ite", OEq: "=", OUlt: "bvult", OUle: "bvule", OSlt: "bvslt", OSle: "bvsle",
	OBAnd: "and", OBOr: "or", OBNot: "not",
	OFAdd: "fp.add RNE", OFSub: "fp.sub RNE", OFMul: "fp.mul RNE", OFDiv: "fp.div RNE", OFNeg: "fp.neg", OFLt: "fp.lt", OFLe: "fp.leq", OFEq: "fp.eq", OFIsNaN: "fp.isNaN",
	OFSqrt: "fp.sqrt RNE", OFAbs: "fp.abs",
}

type Term struct {
	ID   int
	Op   Op
	S    Sort
	Args []*Term
	C    uint64 // constant value (bv bits / bool 0,1 / fp bits)
	Name string // var or UF name
	Hi   int    // extract hi / ext amount
	Lo   int
	emitted bool
}

type TermStore struct {
	tab   map[string]*Term
	all   []*Term
	vars  []*Term
	ufs   map[string]string // name -> declaration
	ufDecl []string
}

var TS = &TermStore{tab: map[string]*Term{}, ufs: map[string]string{}}

func (ts *TermStore) intern(t *Term) *Term {
	var sb strings.Builder
	sb.WriteByte(byte(t.Op))
	sb.WriteByte(byte(t.S.K))
	sb.WriteString(strconv.Itoa(t.S.W))
	sb.WriteByte(':')
	switch t.Op {
	case OConst:
		sb.WriteString(strconv.FormatUint(t.C, 16))
	case OVar, OUF:
		sb.WriteString(t.Name)
	case OExtract, OZExt, OSExt:
		sb.WriteString(strconv.Itoa(t.Hi))
		sb.WriteByte(',')
		sb.WriteString(strconv.Itoa(t.Lo))
	}
	for _, a := range t.Args {
		sb.WriteByte(' ')
		sb.WriteString(strconv.Itoa(a.ID))
	}
	k := sb.String()
	if o, ok := ts.tab[k]; ok {
		return o
	}
	t.ID = len(ts.all)
	ts.all = append(ts.all, t)
	ts.tab[k] = t
	if t.Op == OVar {
		ts.vars = append(ts.vars, t)
	}
	return t
}

func mask(w int) uint64 {
	if w >= 64 {
		return ^uint64(0)
	}
	return (uint64(1) << uint(w)) - 1
}

func sext64(v uint64, w int) int64 {
	if w >= 64 {
		return int64(v)
	}
	sh := uint(64 - w)
	return int64(v<<sh) >> sh
}

func (t *Term) IsConst() bool { return t.Op == OConst }
func (t *Term) IsTrue() bool  { return t.Op == OConst && t.S.K == KBool && t.C == 1 }
func (t *Term) IsFalse() bool { return t.Op == OConst && t.S.K == KBool && t.C == 0 }

func (t *Term) Int64() int64   { return sext64(t.C, t.S.W) }
func (t *Term) Uint64() uint64 { return t.C }
func (t *Term) Float() float64 {
	if t.S.W == 32 {
		return float64(math.Float32frombits(uint32(t.C)))
	}
	return math.Float64frombits(t.C)
}

func ConstBV(w int, v uint64) *Term {
	return TS.intern(&Term{Op: OConst, S: BV(w), C: v & mask(w)})
}
func ConstBool(b bool) *Term {
	c := uint64(0)
	if b {
		c = 1
	}
	return TS.intern(&Term{Op: OConst, S: BoolSort, C: c})
}

var (
	True  = ConstBool(true)
	False = ConstBool(false)
)

func ConstFP(w int, f float64) *Term {
	if w == 32 {
		return TS.intern(&Term{Op: OConst, S: FP32, C: uint64(math.Float32bits(float32(f)))})
	}
	return TS.intern(&Term{Op: OConst, S: FP64, C: math.Float64bits(f)})
}

func Var(name string, s Sort) *Term {
	return TS.intern(&Term{Op: OVar, S: s, Name: name})
}

func mk(op Op, s Sort, args ...*Term) *Term {
	return TS.intern(&Term{Op: op, S: s, Args: args})
}

// UF application. All UFs are declared on first use with the given signature.
func UF(name string, ret Sort, args ...*Term) *Term {
	if _, ok := TS.ufs[name]; !ok {
		var sb strings.Builder
		sb.WriteString("(declare-fun " + name + " (")
		for i, a := range args {
			if i > 0 {
				sb.WriteByte(' ')
			}
			sb.WriteString(a.S.String())
		}
		sb.WriteString(") " + ret.String() + ")")
		TS.ufs[name] = sb.String()
		TS.ufDecl = append(TS.ufDecl, sb.String())
	}
	return TS.intern(&Term{Op: OUF, S: ret, Args: args, Name: name})
}

// ---------- boolean constructors

func Not(a *Term) *Term {
	if a.IsConst() {
		return ConstBool(a.C == 0)
	}
	if a.Op == OBNot {
		return a.Args[0]
	}
	return mk(OBNot, BoolSort, a)
}

func And(a, b *Term) *Term {
	if a.IsConst() {
		if a.C == 0 {
			return False
		}
		return b
	}
	if b.IsConst() {
		if b.C == 0 {
			return False
		}
		return a
	}
	if a == b {
		return a
	}
	if (a.Op == OBNot && a.Args[0] == b) || (b.Op == OBNot && b.Args[0] == a) {
		return False
	}
	return mk(OBAnd, BoolSort, a, b)
}

func Or(a, b *Term) *Term {
	if a.IsConst() {
		if a.C == 1 {
			return True
		}
		return b
	}
	if b.IsConst() {
		if b.C == 1 {
			return True
		}
		return a
	}
	if a == b {
		return a
	}
	if (a.Op == OBNot && a.Args[0] == b) || (b.Op == OBNot && b.Args[0] == a) {
		return True
	}
	return mk(OBOr, BoolSort, a, b)
}

func AndN(ts ...*Term) *Term {
	r := True
	for _, t := range ts {
		r = And(r, t)
	}
	return r
}
func OrN(ts ...*Term) *Term {
	r := False
	for _, t := range ts {
		r = Or(r, t)
	}
	return r
}

func Implies(a, b *Term) *Term { return Or(Not(a), b) }

func Ite(c, a, b *Term) *Term {
	if c.IsConst() {
		if c.C == 1 {
			return a
		}
		return b
	}
	if a == b {
		return a
	}
	if a.S.K == KBool {
		if a.IsConst() && b.IsConst() {
			if a.C == 1 {
				return c
			}
			return Not(c)
		}
		if a.IsTrue() {
			return Or(c, b)
		}
		if a.IsFalse() {
			return And(Not(c), b)
		}
		if b.IsTrue() {
			return Or(Not(c), a)
		}
		if b.IsFalse() {
			return And(c, a)
		}
	}
	if c.Op == OBNot {
		return Ite(c.Args[0], b, a)
	}
	return mk(OIte, a.S, c, a, b)
}

func Eq(a, b *Term) *Term {
	if a == b {
		if a.S.K == KFP {
			panic("Eq on FP: use FEq")
		}
		return True
	}
	if a.S != b.S {
		panic(fmt.Sprintf("Eq sort mismatch %v %v", a.S, b.S))
	}
	if a.IsConst() && b.IsConst() {
		return ConstBool(a.C == b.C)
	}
	if a.S.K == KBool {
		if a.IsConst() {
			if a.C == 1 {
				return b
			}
			return Not(b)
		}
		if b.IsConst() {
			if b.C == 1 {
				return a
			}
			return Not(a)
		}
	}
	// normalise order
	if a.ID > b.ID {
		a, b = b, a
	}
	// eq(ite(c,k1,k2), k) with consts
	if a.IsConst() && b.Op == OIte && b.Args[1].IsConst() && b.Args[2].IsConst() {
		return Ite(b.Args[0], ConstBool(b.Args[1].C == a.C), ConstBool(b.Args[2].C == a.C))
	}
	if a.IsConst() && b.Op == OZExt && b.S.K == KBV {
		inner := b.Args[0]
		if a.C>>uint(inner.S.W) != 0 && inner.S.W < 64 {
			return False
		}
		return Eq(ConstBV(inner.S.W, a.C), inner)
	}
	return mk(OEq, BoolSort, a, b)
}

func Ne(a, b *Term) *Term { return Not(Eq(a, b)) }

// ---------- bit-vector constructors

func bvBin(op Op, a, b *Term) *Term {
	if a.S != b.S {
		panic(fmt.Sprintf("bv op %v sort mismatch %v %v", opNames[op], a.S, b.S))
	}
	w := a.S.W
	if a.IsConst() && b.IsConst() && w <= 64 {
		x, y := a.C, b.C
		var r uint64
		ok := true
		switch op {
		case OAdd:
			r = x + y
		case OSub:
			r = x - y
		case OMul:
			r = x * y
		case OUDiv:
			if y == 0 {
				r = mask(w)
			} else {
				r = x / y
			}
		case OURem:
			if y == 0 {
				r = x
			} else {
				r = x % y
			}
		case OSDiv:
			sx, sy := sext64(x, w), sext64(y, w)
			if sy == 0 {
				if sx >= 0 {
					r = mask(w)
				} else {
					r = 1
				}
			} else if sy == -1 {
				r = uint64(-sx)
			} else {
				r = uint64(sx / sy)
			}
		case OSRem:
			sx, sy := sext64(x, w), sext64(y, w)
			if sy == 0 {
				r = x
			} else if sy == -1 {
				r = 0
			} else {
				r = uint64(sx % sy)
			}
		case OAnd:
			r = x & y
		case OOr:
			r = x | y
		case OXor:
			r = x ^ y
		case OShl:
			if y >= uint64(w) {
				r = 0
			} else {
				r = x << y
			}
		case OLShr:
			if y >= uint64(w) {
				r = 0
			} else {
				r = x >> y
			}
		case OAShr:
			sx := sext64(x, w)
			if y >= uint64(w) {
				if sx < 0 {
					r = mask(w)
				} else {
					r = 0
				}
			} else {
				r = uint64(sx >> y)
			}
		default:
			ok = false
		}
		if ok {
			return ConstBV(w, r)
		}
	}
	if r := simplifyBvBinC10(op, a, b); r != nil { // term_c10.go: narrow urem, (x*c)/c
		return r
	}
	// identities
	switch op {
	case OAdd:
		if a.IsConst() && a.C == 0 {
			return b
		}
		if b.IsConst() && b.C == 0 {
			return a
		}
		// (x + c1) + c2
		if b.IsConst() && a.Op == OAdd && a.Args[1].IsConst() {
			return bvBin(OAdd, a.Args[0], ConstBV(w, a.Args[1].C+b.C))
		}
		if a.IsConst() {
			a, b = b, a
		}
	case OSub:
		if b.IsConst() && b.C == 0 {
			return a
		}
		if a == b {
			return ConstBV(w, 0)
		}
		if b.IsConst() {
			return bvBin(OAdd, a, ConstBV(w, -b.C))
		}
	case OMul:
		if a.IsConst() {
			a, b = b, a
		}
		if b.IsConst() {
			if b.C == 0 {
				return b
			}
			if b.C == 1 {
				return a
			}
		}
	case OAnd:
		if a.IsConst() {
			a, b = b, a
		}
		if b.IsConst() {
			if b.C == 0 {
				return b
			}
			if b.C == mask(w) {
				return a
			}
		}
		if a == b {
			return a
		}
	case OOr:
		if a.IsConst() {
			a, b = b, a
		}
		if b.IsConst() {
			if b.C == 0 {
				return a
			}
			if b.C == mask(w) {
				return b
			}
		}
		if a == b {
			return a
		}
	case OXor:
		if a.IsConst() {
			a, b = b, a
		}
		if b.IsConst() && b.C == 0 {
			return a
		}
		if a == b {
			return ConstBV(w, 0)
		}
	case OShl, OLShr, OAShr:
		if b.IsConst() && b.C == 0 {
			return a
		}
	case OUDiv, OSDiv:
		if b.IsConst() && b.C == 1 {
			return a
		}
	}
	return mk(op, a.S, a, b)
}

func Add(a, b *Term) *Term  { return bvBin(OAdd, a, b) }
func Sub(a, b *Term) *Term  { return bvBin(OSub, a, b) }
func Mul(a, b *Term) *Term  { return bvBin(OMul, a, b) }
func UDiv(a, b *Term) *Term { return bvBin(OUDiv, a, b) }
func URem(a, b *Term) *Term { return bvBin(OURem, a, b) }
func SDiv(a, b *Term) *Term { return bvBin(OSDiv, a, b) }
func SRem(a, b *Term) *Term { return bvBin(OSRem, a, b) }
func BAnd(a, b *Term) *Term { return bvBin(OAnd, a, b) }
func BOr(a, b *Term) *Term  { return bvBin(OOr, a, b) }
func BXor(a, b *Term) *Term { return bvBin(OXor, a, b) }
func Shl(a, b *Term) *Term  { return bvBin(OShl, a, b) }
func LShr(a, b *Term) *Term { return bvBin(OLShr, a, b) }
func AShr(a, b *Term) *Term { return bvBin(OAShr, a, b) }

func BNot(a *Term) *Term {
	if a.IsConst() {
		return ConstBV(a.S.W, ^a.C)
	}
	if a.Op == ONot {
		return a.Args[0]
	}
	return mk(ONot, a.S, a)
}
func Neg(a *Term) *Term {
	if a.IsConst() {
		return ConstBV(a.S.W, -a.C)
	}
	return mk(ONeg, a.S, a)
}

// unsigned upper bound of a term (cheap, syntactic)
func ubound(t *Term) uint64 {
	switch t.Op {
	case OConst:
		return t.C
	case OZExt:
		return ubound(t.Args[0])
	case OIte:
		a, b := ubound(t.Args[1]), ubound(t.Args[2])
		if a > b {
			return a
		}
		return b
	case OAnd:
		a, b := ubound(t.Args[0]), ubound(t.Args[1])
		if a < b {
			return a
		}
		return b
	case OURem:
		if t.Args[1].IsConst() && t.Args[1].C > 0 {
			return t.Args[1].C - 1
		}
	case OLShr:
		if t.Args[1].IsConst() && t.Args[1].C < 64 {
			return ubound(t.Args[0]) >> t.Args[1].C
		}
	}
	return mask(t.S.W)
}

func cmp(op Op, a, b *Term) *Term {
	if a.S != b.S {
		panic(fmt.Sprintf("cmp sort mismatch %v %v", a.S, b.S))
	}
	w := a.S.W
	if a.IsConst() && b.IsConst() {
		switch op {
		case OUlt:
			return ConstBool(a.C < b.C)
		case OUle:
			return ConstBool(a.C <= b.C)
		case OSlt:
			return ConstBool(sext64(a.C, w) < sext64(b.C, w))
		case OSle:
			return ConstBool(sext64(a.C, w) <= sext64(b.C, w))
		}
	}
	if a == b {
		return ConstBool(op == OUle || op == OSle)
	}
	// cheap range reasoning
	switch op {
	case OUlt:
		if b.IsConst() && b.C == 0 {
			return False
		}
		if b.IsConst() && ubound(a) < b.C {
			return True
		}
		if a.IsConst() && ubound(b) <= a.C {
			return False
		}
	case OUle:
		if b.IsConst() && ubound(a) <= b.C {
			return True
		}
		if a.IsConst() && ubound(b) < a.C {
			return False
		}
		if a.IsConst() && a.C == 0 {
			return True
		}
	case OSlt:
		// both provably non-negative -> unsigned compare
		if w <= 64 {
			half := uint64(1) << uint(w-1)
			if ubound(a) < half && ubound(b) < half {
				return cmp(OUlt, a, b)
			}
		}
	case OSle:
		if w <= 64 {
			half := uint64(1) << uint(w-1)
			if ubound(a) < half && ubound(b) < half {
				return cmp(OUle, a, b)
			}
		}
	}
	return mk(op, BoolSort, a, b)
}

func Ult(a, b *Term) *Term { return cmp(OUlt, a, b) }
func Ule(a, b *Term) *Term { return cmp(OUle, a, b) }
func Slt(a, b *Term) *Term { return cmp(OSlt, a, b) }
func Sle(a, b *Term) *Term { return cmp(OSle, a, b) }

func Extract(hi, lo int, a *Term) *Term {
	w := hi - lo + 1
	if lo == 0 && w == a.S.W {
		return a
	}
	if a.IsConst() {
		return ConstBV(w, a.C>>uint(lo))
	}
	switch a.Op {
	case OZExt, OSExt:
		in := a.Args[0]
		if hi < in.S.W {
			return Extract(hi, lo, in)
		}
		if a.Op == OZExt && lo >= in.S.W {
			return ConstBV(w, 0)
		}
		if lo == 0 {
			if a.Op == OZExt {
				return ZExt(in, w)
			}
			return SExt(in, w)
		}
	case OConcat:
		h, l := a.Args[0], a.Args[1]
		if hi < l.S.W {
			return Extract(hi, lo, l)
		}
		if lo >= l.S.W {
			return Extract(hi-l.S.W, lo-l.S.W, h)
		}
	case OExtract:
		return Extract(hi+a.Lo, lo+a.Lo, a.Args[0])
	case OIte:
		if a.Args[1].IsConst() && a.Args[2].IsConst() {
			return Ite(a.Args[0], Extract(hi, lo, a.Args[1]), Extract(hi, lo, a.Args[2]))
		}
	case OAnd, OOr, OXor, OAdd, OSub, OMul:
		// low bits only depend on low bits
		if lo == 0 && (a.Args[0].Op == OZExt || a.Args[0].Op == OSExt || a.Args[0].IsConst()) && (a.Args[1].Op == OZExt || a.Args[1].Op == OSExt || a.Args[1].IsConst()) {
			return bvBin(a.Op, Extract(hi, 0, a.Args[0]), Extract(hi, 0, a.Args[1]))
		}
	}
	return TS.intern(&Term{Op: OExtract, S: BV(w), Args: []*Term{a}, Hi: hi, Lo: lo})
}

// ZExt extends to width w.
func ZExt(a *Term, w int) *Term {
	if w == a.S.W {
		return a
	}
	if w < a.S.W {
		return Extract(w-1, 0, a)
	}
	if a.IsConst() {
		return ConstBV(w, a.C)
	}
	if a.Op == OZExt {
		return ZExt(a.Args[0], w)
	}
	if a.Op == OIte && a.Args[1].IsConst() && a.Args[2].IsConst() {
		return Ite(a.Args[0], ZExt(a.Args[1], w), ZExt(a.Args[2], w))
	}
	return TS.intern(&Term{Op: OZExt, S: BV(w), Args: []*Term{a}, Hi: w - a.S.W})
}

func SExt(a *Term, w int) *Term {
	if w == a.S.W {
		return a
	}
	if w < a.S.W {
		return Extract(w-1, 0, a)
	}
	if a.IsConst() {
		return ConstBV(w, uint64(sext64(a.C, a.S.W)))
	}
	if a.Op == OZExt {
		return ZExt(a.Args[0], w)
	}
	if a.Op == OSExt {
		return SExt(a.Args[0], w)
	}
	if a.S.W <= 64 && ubound(a) < uint64(1)<<uint(a.S.W-1) {
		return ZExt(a, w)
	}
	return TS.intern(&Term{Op: OSExt, S: BV(w), Args: []*Term{a}, Hi: w - a.S.W})
}

func Concat(h, l *Term) *Term {
	w := h.S.W + l.S.W
	if h.IsConst() && l.IsConst() && w <= 64 {
		return ConstBV(w, h.C<<uint(l.S.W)|l.C)
	}
	if h.IsConst() && h.C == 0 {
		return ZExt(l, w)
	}
	return mk(OConcat, BV(w), h, l)
}

// ---------- floating point

func fpBin(op Op, a, b *Term) *Term {
	if a.S != b.S {
		panic("fp sort mismatch")
	}
	if a.IsConst() && b.IsConst() {
		x, y := a.Float(), b.Float()
		var r float64
		switch op {
		case OFAdd:
			r = x + y
		case OFSub:
			r = x - y
		case OFMul:
			r = x * y
		case OFDiv:
			r = x / y
		}
		if a.S.W == 32 {
			r = float64(float32(r))
		}
		return ConstFP(a.S.W, r)
	}
	return mk(op, a.S, a, b)
}
func FAdd(a, b *Term) *Term { return fpBin(OFAdd, a, b) }
func FSub(a, b *Term) *Term { return fpBin(OFSub, a, b) }
func FMul(a, b *Term) *Term { return fpBin(OFMul, a, b) }
func FDiv(a, b *Term) *Term { return fpBin(OFDiv, a, b) }
func FNeg(a *Term) *Term {
	if a.IsConst() {
		return ConstFP(a.S.W, -a.Float())
	}
	return mk(OFNeg, a.S, a)
}
func FAbs(a *Term) *Term {
	if a.IsConst() {
		return ConstFP(a.S.W, math.Abs(a.Float()))
	}
	return mk(OFAbs, a.S, a)
}
func FSqrt(a *Term) *Term {
	if a.IsConst() {
		return ConstFP(a.S.W, math.Sqrt(a.Float()))
	}
	return mk(OFSqrt, a.S, a)
}
func fpCmp(op Op, a, b *Term) *Term {
	if a.IsConst() && b.IsConst() {
		x, y := a.Float(), b.Float()
		switch op {
		case OFLt:
			return ConstBool(x < y)
		case OFLe:
			return ConstBool(x <= y)
		case OFEq:
			return ConstBool(x == y)
		}
	}
	return mk(op, BoolSort, a, b)
}
func FLt(a, b *Term) *Term { return fpCmp(OFLt, a, b) }
func FLe(a, b *Term) *Term { return fpCmp(OFLe, a, b) }
func FEq(a, b *Term) *Term { return fpCmp(OFEq, a, b) }
func FIsNaN(a *Term) *Term {
	if a.IsConst() {
		return ConstBool(math.IsNaN(a.Float()))
	}
	return mk(OFIsNaN, BoolSort, a)
}

// int -> float
func FFromBV(a *Term, signed bool, fw int) *Term {
	if a.IsConst() {
		if signed {
			return ConstFP(fw, float64(sext64(a.C, a.S.W)))
		}
		return ConstFP(fw, float64(a.C))
	}
	op := OFFromUBV
	if signed {
		op = OFFromSBV
	}
	s := FP64
	if fw == 32 {
		s = FP32
	}
	return mk(op, s, a)
}

// float -> int (truncation). Out of range is implementation-defined in Go; for
// constants we mimic amd64.
func FToBV(a *Term, signed bool, w int) *Term {
	if a.IsConst() {
		f := a.Float()
		if signed {
			return ConstBV(w, uint64(int64(f)))
		}
		if f >= 0 {
			return ConstBV(w, uint64(f))
		}
		return ConstBV(w, uint64(int64(f)))
	}
	op := OFToUBV
	if signed {
		op = OFToSBV
	}
	return TS.intern(&Term{Op: op, S: BV(w), Args: []*Term{a}})
}

func FToFP(a *Term, fw int) *Term {
	if a.S.W == fw {
		return a
	}
	if a.IsConst() {
		return ConstFP(fw, a.Float())
	}
	s := FP64
	if fw == 32 {
		s = FP32
	}
	return mk(OFToFP, s, a)
}

func FFromBits(a *Term) *Term {
	s := FP64
	if a.S.W == 32 {
		s = FP32
	}
	if a.IsConst() {
		return TS.intern(&Term{Op: OConst, S: s, C: a.C})
	}
	return mk(OFFromBits, s, a)
}

// ---------- printing

func (t *Term) ref() string {
	switch t.Op {
	case OConst:
		switch t.S.K {
		case KBool:
			if t.C == 1 {
				return "true"
			}
			return "false"
		case KBV:
			if t.S.W%4 == 0 {
				return fmt.Sprintf("#x%0*x", t.S.W/4, t.C)
			}
			return fmt.Sprintf("#b%0*b", t.S.W, t.C)
		case KFP:
			if t.S.W == 32 {
				return fmt.Sprintf("((_ to_fp 8 24) #x%08x)", t.C)
			}
			return fmt.Sprintf("((_ to_fp 11 53) #x%016x)", t.C)
		}
	case OVar:
		return t.Name
	}
	return "t_" + strconv.Itoa(t.ID)
}

func (t *Term) body() string {
	var sb strings.Builder
	switch t.Op {
	case OExtract:
		fmt.Fprintf(&sb, "((_ extract %d %d) %s)", t.Hi, t.Lo, t.Args[0].ref())
	case OZExt:
		fmt.Fprintf(&sb, "((_ zero_extend %d) %s)", t.Hi, t.Args[0].ref())
	case OSExt:
		fmt.Fprintf(&sb, "((_ sign_extend %d) %s)", t.Hi, t.Args[0].ref())
	case OFFromSBV:
		fmt.Fprintf(&sb, "((_ to_fp %s) RNE %s)", fpDims(t.S), t.Args[0].ref())
	case OFFromUBV:
		fmt.Fprintf(&sb, "((_ to_fp_unsigned %s) RNE %s)", fpDims(t.S), t.Args[0].ref())
	case OFToSBV:
		fmt.Fprintf(&sb, "((_ fp.to_sbv %d) RTZ %s)", t.S.W, t.Args[0].ref())
	case OFToUBV:
		fmt.Fprintf(&sb, "((_ fp.to_ubv %d) RTZ %s)", t.S.W, t.Args[0].ref())
	case OFToFP:
		fmt.Fprintf(&sb, "((_ to_fp %s) RNE %s)", fpDims(t.S), t.Args[0].ref())
	case OFFromBits:
		fmt.Fprintf(&sb, "((_ to_fp %s) %s)", fpDims(t.S), t.Args[0].ref())
	case OUF:
		if len(t.Args) == 0 {
			return t.Name
		}
		sb.WriteString("(" + t.Name)
		for _, a := range t.Args {
			sb.WriteByte(' ')
			sb.WriteString(a.ref())
		}
		sb.WriteByte(')')
	default:
		n, ok := opNames[t.Op]
		if !ok {
			panic(fmt.Sprintf("no printer for op %d", t.Op))
		}
		sb.WriteString("(" + n)
		for _, a := range t.Args {
			sb.WriteByte(' ')
			sb.WriteString(a.ref())
		}
		sb.WriteByte(')')
	}
	return sb.String()
}

func fpDims(s Sort) string {
	if s.W == 32 {
		return "8 24"
	}
	return "11 53"
}

// String gives a full (non-shared) rendering for debugging; truncated.
func (t *Term) String() string {
	var sb strings.Builder
	t.str(&sb, 0)
	return sb.String()
}

func (t *Term) str(sb *strings.Builder, depth int) {
	if sb.Len() > 2000 {
		sb.WriteString("…")
		return
	}
	if t.Op == OConst || t.Op == OVar {
		sb.WriteString(t.ref())
		return
	}
	if depth > 12 {
		sb.WriteString(t.ref())
		return
	}
	switch t.Op {
	case OExtract:
		fmt.Fprintf(sb, "(extract[%d:%d] ", t.Hi, t.Lo)
	case OZExt:
		fmt.Fprintf(sb, "(zext%d ", t.Hi)
	case OSExt:
		fmt.Fprintf(sb, "(sext%d ", t.Hi)
	case OUF:
		sb.WriteString("(" + t.Name + " ")
	default:
		n := opNames[t.Op]
		if n == "" {
			n = fmt.Sprintf("op%d", t.Op)
		}
		sb.WriteString("(" + n + " ")
	}
	for i, a := range t.Args {
		if i > 0 {
			sb.WriteByte(' ')
		}
		a.str(sb, depth+1)
	}
	sb.WriteByte(')')
}

// ---------- evaluation under a model

type Model map[string]uint64 // var name -> bits

func (m Model) Eval(t *Term, cache map[*Term]uint64) (uint64, bool) {
	if v, ok := cache[t]; ok {
		return v, true
	}
	var r uint64
	switch t.Op {
	case OConst:
		return t.C, true
	case OVar:
		v, ok := m[t.Name]
		if !ok {
			v = 0
		}
		r = v
	case OUF:
		return 0, false
	default:
		av := make([]uint64, len(t.Args))
		for i, a := range t.Args {
			v, ok := m.Eval(a, cache)
			if !ok {
				return 0, false
			}
			av[i] = v
		}
		w := t.S.W
		switch t.Op {
		case OAdd, OSub, OMul, OUDiv, OURem, OSDiv, OSRem, OAnd, OOr, OXor, OShl, OLShr, OAShr:
			c := bvBin(t.Op, ConstBV(w, av[0]), ConstBV(w, av[1]))
			r = c.C
		case ONot:
			r = ^av[0] & mask(w)
		case ONeg:
			r = -av[0] & mask(w)
		case OConcat:
			r = av[0]<<uint(t.Args[1].S.W) | av[1]
		case OExtract:
			r = (av[0] >> uint(t.Lo)) & mask(w)
		case OZExt:
			r = av[0]
		case OSExt:
			r = uint64(sext64(av[0], t.Args[0].S.W)) & mask(w)
		case OIte:
			if av[0] == 1 {
				r = av[1]
			} else {
				r = av[2]
			}
		case OEq:
			r = b2u(av[0] == av[1])
		case OUlt:
			r = b2u(av[0] < av[1])
		case OUle:
			r = b2u(av[0] <= av[1])
		case OSlt:
			r = b2u(sext64(av[0], t.Args[0].S.W) < sext64(av[1], t.Args[0].S.W))
		case OSle:
			r = b2u(sext64(av[0], t.Args[0].S.W) <= sext64(av[1], t.Args[0].S.W))
		case OBAnd:
			r = av[0] & av[1]
		case OBOr:
			r = av[0] | av[1]
		case OBNot:
			r = 1 - av[0]
		default:
			// fp ops: evaluate through constants
			cs := make([]*Term, len(av))
			for i, a := range t.Args {
				cs[i] = TS.intern(&Term{Op: OConst, S: a.S, C: av[i]})
			}
			var c *Term
			switch t.Op {
			case OFAdd, OFSub, OFMul, OFDiv:
				c = fpBin(t.Op, cs[0], cs[1])
			case OFNeg:
				c = FNeg(cs[0])
			case OFAbs:
				c = FAbs(cs[0])
			case OFSqrt:
				c = FSqrt(cs[0])
			case OFLt, OFLe, OFEq:
				c = fpCmp(t.Op, cs[0], cs[1])
			case OFIsNaN:
				c = FIsNaN(cs[0])
			case OFFromSBV:
				c = FFromBV(cs[0], true, t.S.W)
			case OFFromUBV:
				c = FFromBV(cs[0], false, t.S.W)
			case OFToSBV:
				c = FToBV(cs[0], true, t.S.W)
			case OFToUBV:
				c = FToBV(cs[0], false, t.S.W)
			case OFToFP:
				c = FToFP(cs[0], t.S.W)
			case OFFromBits:
				c = FFromBits(cs[0])
			default:
				return 0, false
			}
			if !c.IsConst() {
				return 0, false
			}
			r = c.C
		}
	}
	if cache != nil {
		cache[t] = r
	}
	return r, true
}

func b2u(b bool) uint64 {
	if b {
		return 1
	}
	return 0
}

var _ = bits.Len64
