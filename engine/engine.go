package main

import (
	"fmt"
	"go/types"
	"os"
	"sort"
	"strings"
	"time"

	"golang.org/x/tools/go/ssa"
)

// ---- path outcome signalling (Go panics carrying these types)

type pathEndSignal struct{} // current path is over (outcome recorded in E.cur)
type abortSignal struct{}   // goroutine teardown

type targetPanic struct {
	v   value
	msg string
}

func (p targetPanic) String() string {
	if p.msg != "" {
		return p.msg
	}
	if it, ok := p.v.(iface); ok {
		if s, ok := it.v.(Str); ok {
			return s.String()
		}
		return toString(it)
	}
	return toString(p.v)
}

type Outcome struct {
	Kind   string // ok | infeasible | panic | exit | deadlock | inconclusive
	Detail string
}

type Violation struct {
	Label   string            `json:"label"`
	Kind    string            `json:"kind"` // assert | panic | exit | deadlock
	Detail  string            `json:"detail"`
	Model   map[string]uint64 `json:"model"`
	Choices []int             `json:"choices"`
	Order   []string          `json:"order"` // nondet names in creation order
	Trace   []string          `json:"trace,omitempty"`
	Replay  string            `json:"replay,omitempty"`
	Native  string            `json:"native,omitempty"`
}

type node struct {
	alts   []int   // feasible alternative indices
	pos    int     // current position in alts
	models []Model // model per alt (may be nil)
	unknown bool
}

type Engine struct {
	prog    *ssa.Program
	pkgs    map[string]*ssa.Package
	harnessPkg *ssa.Package
	solver  *Solver
	solver2 *Solver // optional arithmetic back end (cvc5 bv-as-int) for asserts that z3 answers unknown

	// exploration tree
	tree  []*node
	depth int

	// per-path state
	pc        []*Term
	pcSet     map[*Term]bool
	curModel  Model
	evalCache map[*Term]uint64
	nondetCnt map[string]int
	pathVars  []*Term
	varOrder  []string
	choices   []int
	globals   map[*ssa.Global]*value
	initDone  map[*ssa.Package]int // 1 in progress, 2 done
	steps     int
	gs        []*G
	curG      *G
	aborting  bool
	outcome   Outcome
	covers    map[string]bool
	ghost     map[string]value
	trace     []string
	callDepth int
	counters  map[string]*Term
	lockLog   []string
	envChans  []*Chan
	fsState   *FS
	tickers   []*Chan
	traceLog  []traceEvent
	heldLocks map[*value]bool
	blockingOps int

	// limits
	maxDepth int
	maxSteps int
	maxPaths int
	deadline time.Time

	// results
	Paths        int
	PathsByKind  map[string]int
	Violations   map[string]*Violation // by label
	Inconclusive map[string]int
	Covers       map[string]int
	Asserts      map[string]int // label -> times checked
	FuncsRun     map[string]bool
	StubsUsed    map[string]bool
	ExpectPanic  bool
	Witness      map[string]uint64
	reportPanics bool
	verbose      bool
	traceCalls   bool
	mapReverse   bool
	schedFork    bool
	kafkaSt      *kafkaState
	tokSt        *tokStream
	preemptLeft  int      // remaining preemptions on this path (verifPreemptions)
	schedTrace   []string // preemptions taken on this path
	enginePanic  string
	initExplicit *ssa.Function
	locks        map[*value]*lockSt
	env          map[string]value
	fmtOpaque    []fmtRecord
	regexEncodings int
	params       map[string]string
	clockSymbolic bool
	clockLast    *Term
	registry     map[string]value
	netDials     int
	lastPanicStack []string
	crashed      bool
	crashLabel   string
	crashPoints  int
	hookCheck    bool
	netUp        bool
	sleepStacks  []string // call stacks (function names) of every time.Sleep executed on this path
	rwOwner      map[*value]*value // RWMutex field cell -> struct that holds it
	pools        map[*value][]value // sync.Pool contents per pool (objects Put and not yet handed out again)
	netStallNew  bool // new connections start out stalled (peer accepts, never reads)
	netConns     []*netConn
	netByPtr     map[*value]*netConn
	httpSt       *httpState
	vclock       int64
	hangLimit    int
	udpSt        *udpState
	idleWakeups  int
}

var E *Engine
var DecisionSites = map[string]int{}

func (e *Engine) resetPath() {
	e.depth = 0
	e.pc = e.pc[:0]
	e.pcSet = map[*Term]bool{}
	e.curModel = nil
	e.evalCache = nil
	e.nondetCnt = map[string]int{}
	e.pathVars = nil
	e.varOrder = nil
	e.choices = nil
	e.globals = map[*ssa.Global]*value{}
	e.initDone = map[*ssa.Package]int{}
	e.steps = 0
	e.gs = nil
	e.aborting = false
	e.outcome = Outcome{Kind: "ok"}
	e.covers = map[string]bool{}
	e.ghost = map[string]value{}
	e.trace = nil
	e.callDepth = 0
	e.counters = map[string]*Term{}
	e.lockLog = nil
	e.envChans = nil
	e.fsState = nil
	e.tickers = nil
	e.traceLog = nil
	e.heldLocks = map[*value]bool{}
	e.blockingOps = 0
	e.locks = nil
	e.env = map[string]value{}
	e.fmtOpaque = nil
	e.reportPanics = true
	e.schedFork = false
	e.preemptLeft = 0
	e.kafkaSt = nil
	e.tokSt = nil
	e.schedTrace = nil
	e.traceCalls = false
	e.clockSymbolic = false
	e.clockLast = nil
	e.registry = map[string]value{}
	e.netDials = 0
	e.crashed = false
	e.crashLabel = ""
	e.crashPoints = 0
	e.hookCheck = false
	e.netUp = false
	e.netStallNew = false
	e.pools = nil
	e.rwOwner = nil
	e.sleepStacks = nil
	e.netConns = nil
	e.netByPtr = nil
	e.httpSt = nil
	e.vclock = 0
	e.hangLimit = 0
	e.udpSt = nil
	e.idleWakeups = 0
}

// endPath terminates the current path with the given outcome.
func (e *Engine) endPath(kind, detail string) {
	if !e.aborting {
		e.outcome = Outcome{kind, detail}
	}
	panic(pathEndSignal{})
}

func (e *Engine) inconclusive(why string) {
	if e.verbose {
		fmt.Fprintln(os.Stderr, "INCONCLUSIVE:", why, "\n", strings.Join(e.stack(), "\n "))
	}
	e.endPath("inconclusive", why)
}

func (e *Engine) stack() []string {
	var r []string
	if e.curG == nil {
		return r
	}
	for fr := e.curG.top; fr != nil; fr = fr.caller {
		pos := ""
		if fr.curInstr != nil {
			pos = e.prog.Fset.Position(fr.curInstr.Pos()).String()
		}
		r = append(r, fr.fn.String()+" "+pos)
		if len(r) > 25 {
			break
		}
	}
	return r
}

// addPC appends a conjunct to the path condition, maintaining the model cache.
func (e *Engine) addPC(c *Term) {
	if c.IsTrue() {
		return
	}
	e.pc = append(e.pc, c)
	e.pcSet[c] = true
	if e.curModel != nil {
		if v, ok := e.curModel.Eval(c, e.evalCache); !ok || v != 1 {
			e.curModel = nil
			e.evalCache = nil
		}
	}
}

func (e *Engine) setModel(m Model) {
	e.curModel = m
	if m != nil {
		e.evalCache = map[*Term]uint64{}
	} else {
		e.evalCache = nil
	}
}

// holdsInModel reports whether the cached model (which satisfies pc) also satisfies c.
func (e *Engine) holdsInModel(c *Term) bool {
	if e.curModel == nil {
		return false
	}
	v, ok := e.curModel.Eval(c, e.evalCache)
	return ok && v == 1
}

func (e *Engine) check(extra *Term) (SatResult, Model) {
	if time.Now().After(e.deadline) {
		e.endPath("inconclusive", "time budget exhausted")
	}
	return e.solver.CheckModel(e.pc, extra, e.pathVars)
}

// chooseCond picks one of the alternatives whose condition is feasible; conds may
// overlap (then the alternatives are explored separately).
func (e *Engine) chooseCond(conds []*Term) int {
	// fast path: exactly one non-false
	if e.depth < len(e.tree) {
		n := e.tree[e.depth]
		e.depth++
		alt := n.alts[n.pos]
		if alt >= len(conds) {
			panic("nondeterministic re-execution: alternative out of range")
		}
		e.addPC(conds[alt])
		if e.depth == len(e.tree) && n.models != nil && n.models[n.pos] != nil && e.curModel == nil {
			e.setModel(n.models[n.pos])
		}
		return alt
	}
	if len(e.tree) >= e.maxDepth {
		e.endPath("inconclusive", fmt.Sprintf("decision depth bound %d reached (unwinding assertion)", e.maxDepth))
	}
	if e.verbose && e.curG != nil {
		DecisionSites[e.where(e.curG)]++
	}
	n := &node{}
	for i, c := range conds {
		if c.IsFalse() {
			continue
		}
		if c.IsTrue() {
			n.alts = append(n.alts, i)
			n.models = append(n.models, e.curModel)
			continue
		}
		if e.holdsInModel(c) {
			n.alts = append(n.alts, i)
			n.models = append(n.models, e.curModel)
			continue
		}
		r, m := e.check(c)
		switch r {
		case Sat:
			n.alts = append(n.alts, i)
			n.models = append(n.models, m)
		case Unknown:
			n.alts = append(n.alts, i)
			n.models = append(n.models, nil)
			n.unknown = true
		}
	}
	if len(n.alts) == 0 {
		e.endPath("infeasible", "no feasible alternative")
	}
	e.tree = append(e.tree, n)
	e.depth++
	alt := n.alts[0]
	e.addPC(conds[alt])
	if n.models[0] != nil && e.curModel == nil {
		e.setModel(n.models[0])
	}
	return alt
}

// branch decides a symbolic condition.
func (e *Engine) branch(c *Term) bool {
	if c.IsConst() {
		return c.C == 1
	}
	// a condition already on the path (e.g. the same code run again on the same data) is decided
	if e.pcSet[c] {
		return true
	}
	if e.pcSet[Not(c)] {
		return false
	}
	return e.chooseCond([]*Term{c, Not(c)}) == 0
}

// choose makes an n-way structural choice (all alternatives feasible).
func (e *Engine) choose(n int) int {
	if n == 1 {
		return 0
	}
	conds := make([]*Term, n)
	for i := range conds {
		conds[i] = True
	}
	r := e.chooseCond(conds)
	return r
}

// concretize forks over the feasible values of t (unsigned interpretation), at most limit.
func (e *Engine) concretize(t *Term, limit int) uint64 {
	if t.IsConst() {
		return t.C
	}
	if e.depth < len(e.tree) {
		n := e.tree[e.depth]
		e.depth++
		v := uint64(n.alts[n.pos])
		e.addPC(Eq(t, ConstBV(t.S.W, v)))
		return v
	}
	if len(e.tree) >= e.maxDepth {
		e.endPath("inconclusive", fmt.Sprintf("decision depth bound %d reached", e.maxDepth))
	}
	n := &node{}
	excl := True
	for {
		r, m := e.check(excl)
		if r == Unsat {
			break
		}
		if r == Unknown {
			e.inconclusive("solver unknown while concretizing " + t.String())
		}
		// evaluate t in model
		full := Model{}
		for k, v := range m {
			full[k] = v
		}
		v, ok := full.Eval(t, map[*Term]uint64{})
		if !ok {
			e.inconclusive("cannot evaluate term while concretizing")
		}
		n.alts = append(n.alts, int(v))
		n.models = append(n.models, nil)
		excl = And(excl, Ne(t, ConstBV(t.S.W, v)))
		if len(n.alts) > limit {
			e.inconclusive(fmt.Sprintf("more than %d values while concretizing %s", limit, t.String()))
		}
	}
	if len(n.alts) == 0 {
		e.endPath("infeasible", "no value")
	}
	sort.Ints(n.alts)
	e.tree = append(e.tree, n)
	e.depth++
	v := uint64(n.alts[0])
	e.addPC(Eq(t, ConstBV(t.S.W, v)))
	return v
}

func (e *Engine) assume(c *Term) {
	if c.IsTrue() {
		return
	}
	if c.IsFalse() {
		e.endPath("infeasible", "assume false")
	}
	if e.holdsInModel(c) {
		e.addPC(c)
		return
	}
	r, m := e.check(c)
	if r == Unsat {
		e.endPath("infeasible", "assume")
	}
	e.addPC(c)
	if r == Sat {
		e.setModel(m)
	}
}

func (e *Engine) fresh(name string, s Sort) *Term {
	k := e.nondetCnt[name]
	e.nondetCnt[name] = k + 1
	full := fmt.Sprintf("%s#%d", name, k)
	v := Var("v_"+sanitize(full), s)
	e.pathVars = append(e.pathVars, v)
	e.varOrder = append(e.varOrder, full)
	return v
}

func sanitize(s string) string {
	var sb strings.Builder
	for _, c := range s {
		switch {
		case c >= 'a' && c <= 'z', c >= 'A' && c <= 'Z', c >= '0' && c <= '9', c == '_':
			sb.WriteRune(c)
		case c == '#':
			sb.WriteString("__")
		default:
			fmt.Fprintf(&sb, "_%x_", c)
		}
	}
	return sb.String()
}

// assert checks the property condition on the current path.
func (e *Engine) assert(c *Term, label string) {
	e.Asserts[label]++
	if c.IsTrue() {
		return
	}
	nc := Not(c)
	var r SatResult
	var m Model
	if nc.IsTrue() {
		r = Sat
		if e.curModel != nil {
			m = e.curModel
		} else {
			r, m = e.check(nil)
			if r == Unsat {
				e.endPath("infeasible", "pc unsat at assert")
			}
		}
	} else if e.holdsInModel(nc) {
		r, m = Sat, e.curModel
	} else {
		r, m = e.check(nc)
		if r == Unknown && e.solver2 != nil {
			r, m = e.solver2.CheckModel(e.pc, nc, e.pathVars)
		}
	}
	switch r {
	case Unsat:
		return
	case Unknown:
		e.Inconclusive["assert "+label+": solver unknown"]++
		e.addPC(c)
		return
	}
	e.recordViolation(label, "assert", "assertion "+label+" can fail", m)
	// continue under the assumption that it held, if possible
	e.assume(c)
}

func (e *Engine) recordViolation(label, kind, detail string, m Model) {
	if _, ok := e.Violations[label]; ok {
		return
	}
	v := &Violation{Label: label, Kind: kind, Detail: detail, Model: map[string]uint64{}, Choices: append([]int(nil), e.choices...)}
	for i, pv := range e.pathVars {
		if m != nil {
			v.Model[e.varOrder[i]] = m[pv.Name]
		}
	}
	v.Order = append([]string(nil), e.varOrder...)
	if len(e.schedTrace) > 0 {
		v.Detail += " [schedule: " + strings.Join(e.schedTrace, "; ") + "]"
	}
	v.Trace = e.stack()
	if kind != "assert" && len(e.lastPanicStack) > 0 {
		v.Trace = e.lastPanicStack
	}
	e.Violations[label] = v
	if e.verbose {
		fmt.Fprintf(os.Stderr, "VIOLATION %s %s: %s model=%v\n", kind, label, detail, v.Model)
	}
}

// pathModel returns a model for the current path (for panics etc.).
func (e *Engine) pathModel() Model {
	if e.curModel != nil {
		return e.curModel
	}
	r, m := e.check(nil)
	if r == Sat {
		return m
	}
	return nil
}

// advance moves to the next unexplored alternative; false when the tree is exhausted.
func (e *Engine) advance() bool {
	for len(e.tree) > 0 {
		n := e.tree[len(e.tree)-1]
		if n.pos+1 < len(n.alts) {
			n.pos++
			return true
		}
		e.tree = e.tree[:len(e.tree)-1]
	}
	return false
}

// Explore runs the harness over all paths.
func (e *Engine) Explore(fn *ssa.Function) {
	for {
		e.resetPath()
		e.runPath(fn)
		e.Paths++
		k := e.outcome.Kind
		e.PathsByKind[k]++
		if k == "inconclusive" {
			e.Inconclusive[e.outcome.Detail]++
		}
		for c := range e.covers {
			e.Covers[c]++
		}
		if e.verbose {
			fmt.Fprintf(os.Stderr, "path %d: %s %s (depth %d, steps %d)\n", e.Paths, k, e.outcome.Detail, e.depth, e.steps)
		}
		// truncate tree to what this path actually used (a path may end before using the replay prefix only by nondeterminism)
		if e.outcome.Kind == "inconclusive" && strings.HasPrefix(e.outcome.Detail, "time budget") {
			// the wall budget of the obligation ran out (possibly in the middle of replaying a prefix):
			// stop here; what was found so far stays, the obligation is inconclusive
			return
		}
		if e.depth < len(e.tree) {
			panic(fmt.Sprintf("path ended at depth %d before replay prefix %d was consumed (nondeterministic execution): outcome %v", e.depth, len(e.tree), e.outcome))
		}
		if !e.advance() {
			return
		}
		if e.Paths >= e.maxPaths {
			e.Inconclusive[fmt.Sprintf("path bound %d reached", e.maxPaths)]++
			return
		}
		if time.Now().After(e.deadline) {
			e.Inconclusive["time budget exhausted"]++
			return
		}
	}
}

func typeName(t types.Type) string { return types.TypeString(t, nil) }
