package main

import (
	"bufio"
	"fmt"
	"io"
	"os"
	"os/exec"
	"strconv"
	"strings"
	"time"
)

type SatResult int

const (
	Unsat SatResult = iota
	Sat
	Unknown
)

func (r SatResult) String() string { return [...]string{"unsat", "sat", "unknown"}[r] }

type Solver struct {
	kind    string // z3 | z3-new | z3-new-t | cvc5 | cvc5-int
	cmd     *exec.Cmd
	in      io.WriteCloser
	out     *bufio.Reader
	emitted map[int]bool // term ids defined
	declared map[string]bool
	ufDeclared int
	stack   []*Term // asserted conjuncts, one frame each
	Queries int
	SatQ, UnsatQ, UnknownQ int
	Time    time.Duration
	timeoutMs int
	log     *os.File
	errSeen string
	buf     strings.Builder
	lines   chan string
	dead    bool
}

func NewSolver(kind string, timeoutMs int, logPath string) (*Solver, error) {
	var cmd *exec.Cmd
	switch kind {
	case "z3":
		cmd = exec.Command("z3", "-in")
	case "z3-new", "z3-new-t":
		// z3-new-t: every check runs the default tactic pipeline (simplify, bit-blast, sat) on the current
		// assertion stack instead of the incremental core; much faster on arithmetic-heavy bit-vector queries
		cmd = exec.Command("z3-new", "-in")
	case "cvc5":
		cmd = exec.Command("cvc5", "--incremental", "--lang=smt2", "--produce-models", fmt.Sprintf("--tlimit-per=%d", timeoutMs))
	case "cvc5-int":
		cmd = exec.Command("cvc5", "--incremental", "--lang=smt2", "--produce-models", "--solve-bv-as-int=sum", fmt.Sprintf("--tlimit-per=%d", timeoutMs))
	default:
		return nil, fmt.Errorf("unknown solver %s", kind)
	}
	in, err := cmd.StdinPipe()
	if err != nil {
		return nil, err
	}
	out, err := cmd.StdoutPipe()
	if err != nil {
		return nil, err
	}
	cmd.Stderr = cmd.Stdout
	if err := cmd.Start(); err != nil {
		return nil, err
	}
	s := &Solver{kind: kind, cmd: cmd, in: in, out: bufio.NewReaderSize(out, 1<<20), emitted: map[int]bool{}, declared: map[string]bool{}, timeoutMs: timeoutMs}
	if logPath != "" {
		s.log, _ = os.Create(logPath)
	}
	s.lines = make(chan string, 1024)
	go func() {
		for {
			l, err := s.out.ReadString('\n')
			if err != nil {
				close(s.lines)
				return
			}
			s.lines <- l
		}
	}()
	s.send("(set-option :global-declarations true)")
	if strings.HasPrefix(kind, "z3") {
		s.send(fmt.Sprintf("(set-option :timeout %d)", timeoutMs))
	} else {
		s.send("(set-logic ALL)")
	}
	return s, nil
}

func (s *Solver) Close() {
	if s.cmd != nil {
		s.in.Close()
		s.cmd.Process.Kill()
		s.cmd.Wait()
		s.cmd = nil
	}
	if s.log != nil {
		s.log.Close()
	}
}

func (s *Solver) send(line string) {
	if s.dead {
		return
	}
	if s.log != nil {
		s.log.WriteString(line + "\n")
	}
	io.WriteString(s.in, line+"\n")
}

func (s *Solver) readLine() string {
	if s.dead {
		return "(error \"solver died\")"
	}
	var l string
	select {
	case x, ok := <-s.lines:
		if !ok {
			s.dead = true
			s.errSeen = "solver died"
			return "(error \"solver died\")"
		}
		l = x
	case <-time.After(time.Duration(2*s.timeoutMs+20000) * time.Millisecond):
		s.dead = true
		s.errSeen = "solver hung (no answer within twice the query timeout); killed"
		s.cmd.Process.Kill()
		return "(error \"solver hung\")"
	}
	l = strings.TrimSpace(l)
	if s.log != nil {
		s.log.WriteString("; <- " + l + "\n")
	}
	return l
}

// define emits definitions for t and all sub-terms not yet defined.
func (s *Solver) define(t *Term) {
	if t.Op == OConst {
		return
	}
	if t.Op == OVar {
		if !s.declared[t.Name] {
			s.declared[t.Name] = true
			s.send("(declare-const " + t.Name + " " + t.S.String() + ")")
		}
		return
	}
	if s.emitted[t.ID] {
		return
	}
	// iterative post-order to avoid deep recursion on long chains
	type fr struct {
		t *Term
		i int
	}
	st := []fr{{t, 0}}
	for len(st) > 0 {
		top := &st[len(st)-1]
		if top.i < len(top.t.Args) {
			a := top.t.Args[top.i]
			top.i++
			if a.Op == OConst {
				continue
			}
			if a.Op == OVar {
				if !s.declared[a.Name] {
					s.declared[a.Name] = true
					s.send("(declare-const " + a.Name + " " + a.S.String() + ")")
				}
				continue
			}
			if !s.emitted[a.ID] {
				st = append(st, fr{a, 0})
			}
			continue
		}
		x := top.t
		st = st[:len(st)-1]
		if s.emitted[x.ID] {
			continue
		}
		if x.Op == OUF {
			for s.ufDeclared < len(TS.ufDecl) {
				s.send(TS.ufDecl[s.ufDeclared])
				s.ufDeclared++
			}
		}
		s.emitted[x.ID] = true
		s.send("(define-fun t_" + strconv.Itoa(x.ID) + " () " + x.S.String() + " " + x.body() + ")")
	}
}

// SyncPC makes the solver's assertion stack equal to pc.
func (s *Solver) SyncPC(pc []*Term) {
	k := 0
	for k < len(s.stack) && k < len(pc) && s.stack[k] == pc[k] {
		k++
	}
	if k < len(s.stack) {
		s.send(fmt.Sprintf("(pop %d)", len(s.stack)-k))
		s.stack = s.stack[:k]
	}
	for ; k < len(pc); k++ {
		s.define(pc[k])
		s.send("(push 1)")
		s.send("(assert " + pc[k].ref() + ")")
		s.stack = append(s.stack, pc[k])
	}
}

func (s *Solver) checkSat() SatResult {
	t0 := time.Now()
	var r SatResult
	if s.kind == "z3-new-t" {
		s.send(fmt.Sprintf("(check-sat-using (try-for default %d))", s.timeoutMs))
		r = s.readResult()
	} else {
		s.send("(check-sat)")
		r = s.readResult()
	}
	s.Time += time.Since(t0)
	if s.log != nil {
		fmt.Fprintf(s.log, "; query %d took %d ms\n", s.Queries, time.Since(t0).Milliseconds())
	}
	s.Queries++
	switch r {
	case Sat:
		s.SatQ++
	case Unsat:
		s.UnsatQ++
	default:
		s.UnknownQ++
	}
	return r
}

func (s *Solver) readResult() SatResult {
	for {
		l := s.readLine()
		switch {
		case l == "sat":
			return Sat
		case l == "unsat":
			return Unsat
		case l == "unknown" || l == "timeout":
			return Unknown
		case strings.HasPrefix(l, "(error"):
			s.errSeen = l
			fmt.Fprintln(os.Stderr, "SOLVER ERROR:", l)
			return Unknown
		case l == "" || strings.HasPrefix(l, "success"):
			continue
		default:
			// unexpected output, e.g. warnings
			if strings.Contains(l, "rror") {
				s.errSeen = l
				fmt.Fprintln(os.Stderr, "SOLVER ERROR:", l)
				return Unknown
			}
		}
	}
}

// Check asks whether pc ∧ extra is satisfiable.
func (s *Solver) Check(pc []*Term, extra *Term) SatResult {
	s.SyncPC(pc)
	if extra == nil || extra.IsTrue() {
		return s.checkSat()
	}
	if extra.IsFalse() {
		return Unsat
	}
	s.define(extra)
	s.send("(push 1)")
	s.send("(assert " + extra.ref() + ")")
	r := s.checkSat()
	s.send("(pop 1)")
	return r
}

// CheckModel is Check but on sat also returns values for the given vars.
func (s *Solver) CheckModel(pc []*Term, extra *Term, vars []*Term) (SatResult, Model) {
	s.SyncPC(pc)
	pushed := false
	if extra != nil && !extra.IsTrue() {
		if extra.IsFalse() {
			return Unsat, nil
		}
		s.define(extra)
		s.send("(push 1)")
		s.send("(assert " + extra.ref() + ")")
		pushed = true
	}
	r := s.checkSat()
	var m Model
	if r == Sat {
		m = s.getValues(vars)
	}
	if pushed {
		s.send("(pop 1)")
	}
	return r, m
}

func (s *Solver) getValues(vars []*Term) Model {
	m := Model{}
	var names []*Term
	for _, v := range vars {
		if v.Op == OVar && s.declared[v.Name] {
			names = append(names, v)
		}
	}
	// chunk to keep lines short
	for i := 0; i < len(names); i += 50 {
		j := i + 50
		if j > len(names) {
			j = len(names)
		}
		var sb strings.Builder
		sb.WriteString("(get-value (")
		for _, v := range names[i:j] {
			sb.WriteString(v.Name + " ")
		}
		sb.WriteString("))")
		cmd := sb.String()
		s.send(cmd)
		txt := s.readSexp()
		parseValues(txt, m)
	}
	return m
}

// readSexp reads one balanced s-expression (possibly multi-line).
func (s *Solver) readSexp() string {
	var sb strings.Builder
	depth := 0
	started := false
	for {
		l := s.readLine()
		if strings.HasPrefix(l, "(error") {
			s.errSeen = l
			return ""
		}
		for _, c := range l {
			if c == '(' {
				depth++
				started = true
			} else if c == ')' {
				depth--
			}
		}
		sb.WriteString(l)
		sb.WriteByte(' ')
		if started && depth <= 0 {
			return sb.String()
		}
	}
}

// parseValues parses ((name val) (name val) ...)
func parseValues(txt string, m Model) {
	toks := tokenize(txt)
	// expect ( ( name value ) ... )
	i := 0
	if i < len(toks) && toks[i] == "(" {
		i++
	}
	for i < len(toks) {
		if toks[i] != "(" {
			i++
			continue
		}
		i++
		if i >= len(toks) {
			break
		}
		name := toks[i]
		i++
		// value: atom or list
		start := i
		if toks[i] == "(" {
			d := 0
			for i < len(toks) {
				if toks[i] == "(" {
					d++
				} else if toks[i] == ")" {
					d--
					if d == 0 {
						i++
						break
					}
				}
				i++
			}
		} else {
			i++
		}
		val := toks[start:i]
		if v, ok := parseVal(val); ok {
			m[name] = v
		}
		// skip closing paren
		if i < len(toks) && toks[i] == ")" {
			i++
		}
	}
}

func tokenize(s string) []string {
	var toks []string
	cur := strings.Builder{}
	flush := func() {
		if cur.Len() > 0 {
			toks = append(toks, cur.String())
			cur.Reset()
		}
	}
	for _, c := range s {
		switch c {
		case '(', ')':
			flush()
			toks = append(toks, string(c))
		case ' ', '\t', '\n', '\r':
			flush()
		default:
			cur.WriteRune(c)
		}
	}
	flush()
	return toks
}

func parseAtomBits(a string) (uint64, int, bool) {
	if strings.HasPrefix(a, "#x") {
		v, err := strconv.ParseUint(a[2:], 16, 64)
		return v, 4 * (len(a) - 2), err == nil
	}
	if strings.HasPrefix(a, "#b") {
		v, err := strconv.ParseUint(a[2:], 2, 64)
		return v, len(a) - 2, err == nil
	}
	return 0, 0, false
}

func parseVal(val []string) (uint64, bool) {
	if len(val) == 1 {
		a := val[0]
		if a == "true" {
			return 1, true
		}
		if a == "false" {
			return 0, true
		}
		v, _, ok := parseAtomBits(a)
		return v, ok
	}
	// (fp sign exp mant)
	if len(val) >= 5 && val[1] == "fp" {
		sg, _, ok1 := parseAtomBits(val[2])
		ex, ew, ok2 := parseAtomBits(val[3])
		mn, mw, ok3 := parseAtomBits(val[4])
		if ok1 && ok2 && ok3 {
			return sg<<uint(ew+mw) | ex<<uint(mw) | mn, true
		}
	}
	// (_ bv123 8)
	if len(val) == 5 && val[1] == "_" && strings.HasPrefix(val[2], "bv") {
		v, err := strconv.ParseUint(val[2][2:], 10, 64)
		return v, err == nil
	}
	// (_ +zero 11 53) (_ NaN 11 53) (_ +oo ..)
	if len(val) == 6 && val[1] == "_" {
		eb, _ := strconv.Atoi(val[3])
		sb, _ := strconv.Atoi(val[4])
		mw := sb - 1
		switch val[2] {
		case "+zero":
			return 0, true
		case "-zero":
			return uint64(1) << uint(eb+mw), true
		case "+oo":
			return mask(eb) << uint(mw), true
		case "-oo":
			return uint64(1)<<uint(eb+mw) | mask(eb)<<uint(mw), true
		case "NaN":
			return mask(eb)<<uint(mw) | uint64(1)<<uint(mw-1), true
		}
	}
	return 0, false
}
