package main

import (
	"fmt"
	"go/constant"
	"go/types"
	"strings"

	"golang.org/x/tools/go/ssa"
)

// Values (boxed, after x/tools/go/ssa/interp):
//   *Term        bool / integers / floats (sort gives width; signedness comes from the static type)
//   Str          strings: immutable vector of byte terms, concrete length
//   []value      slices (element pointers are &s[i])
//   array        arrays
//   structure    structs
//   *value       pointers
//   symElem      pointer to slice element at a symbolic index (load/store only)
//   iface        interfaces
//   *Map         maps
//   *Chan        channels
//   *ssa.Function, *closure, *ssa.Builtin   functions
//   tuple        multi-value
//   *hostFunc    engine-provided function value (for stubs handing out callbacks)

type value interface{}
type tuple []value
type array []value
type structure []value

type iface struct {
	t types.Type
	v value
}

type closure struct {
	Fn  *ssa.Function
	Env []value
}

type Str struct{ b []*Term }

type symElem struct {
	elems []value // the full backing window [0:len)
	idx   *Term   // 64-bit index, known in range on this path
}

type bad struct{}

var byteConsts [256]*Term

func init() {
	for i := range byteConsts {
		byteConsts[i] = ConstBV(8, uint64(i))
	}
}

func mkStr(s string) Str {
	b := make([]*Term, len(s))
	for i := 0; i < len(s); i++ {
		b[i] = byteConsts[s[i]]
	}
	return Str{b}
}

func (s Str) concrete() (string, bool) {
	bs := make([]byte, len(s.b))
	for i, t := range s.b {
		if !t.IsConst() {
			return "", false
		}
		bs[i] = byte(t.C)
	}
	return string(bs), true
}

func (s Str) String() string {
	var sb strings.Builder
	for _, t := range s.b {
		if t.IsConst() {
			sb.WriteByte(byte(t.C))
		} else {
			sb.WriteString("‹" + t.ref() + "›")
		}
	}
	return sb.String()
}

func mustConcStr(v value) string {
	s, ok := v.(Str).concrete()
	if !ok {
		E.inconclusive("symbolic string where concrete required: " + v.(Str).String())
	}
	return s
}

func bytesToTerms(v value) []*Term {
	switch v := v.(type) {
	case Str:
		return v.b
	case []value:
		r := make([]*Term, len(v))
		for i, e := range v {
			r[i] = e.(*Term)
		}
		return r
	}
	panic(fmt.Sprintf("bytesToTerms: %T", v))
}

func termsToSlice(ts []*Term) []value {
	r := make([]value, len(ts))
	for i, t := range ts {
		r[i] = t
	}
	return r
}

func concBytes(v value) ([]byte, bool) {
	ts := bytesToTerms(v)
	r := make([]byte, len(ts))
	for i, t := range ts {
		if !t.IsConst() {
			return nil, false
		}
		r[i] = byte(t.C)
	}
	return r, true
}

func goBytesToSlice(b []byte) []value {
	r := make([]value, len(b))
	for i, c := range b {
		r[i] = byteConsts[c]
	}
	return r
}

// ---------- type helpers

func isSigned(t types.Type) bool {
	b, ok := t.Underlying().(*types.Basic)
	return ok && b.Info()&types.IsInteger != 0 && b.Info()&types.IsUnsigned == 0
}

func intWidth(t types.Type) int {
	b, ok := t.Underlying().(*types.Basic)
	if !ok {
		return 0
	}
	switch b.Kind() {
	case types.Int8, types.Uint8:
		return 8
	case types.Int16, types.Uint16:
		return 16
	case types.Int32, types.Uint32:
		return 32
	case types.Int, types.Uint, types.Int64, types.Uint64, types.Uintptr, types.UntypedInt:
		return 64
	case types.UntypedRune:
		return 32
	}
	return 0
}

func sortOf(t types.Type) (Sort, bool) {
	b, ok := t.Underlying().(*types.Basic)
	if !ok {
		return Sort{}, false
	}
	switch {
	case b.Info()&types.IsBoolean != 0:
		return BoolSort, true
	case b.Info()&types.IsInteger != 0:
		return BV(intWidth(t)), true
	case b.Kind() == types.Float32:
		return FP32, true
	case b.Kind() == types.Float64, b.Kind() == types.UntypedFloat:
		return FP64, true
	}
	return Sort{}, false
}

func mkInt(t types.Type, v int64) *Term { return ConstBV(intWidth(t), uint64(v)) }
func mkI(v int) *Term                   { return ConstBV(64, uint64(v)) }

func constValue(c *ssa.Const) value {
	if c.Value == nil {
		return zero(c.Type())
	}
	if t, ok := c.Type().Underlying().(*types.Basic); ok {
		switch {
		case t.Info()&types.IsBoolean != 0:
			return ConstBool(constant.BoolVal(c.Value))
		case t.Info()&types.IsInteger != 0:
			w := intWidth(t)
			if t.Info()&types.IsUnsigned != 0 {
				return ConstBV(w, c.Uint64())
			}
			return ConstBV(w, uint64(c.Int64()))
		case t.Kind() == types.Float32:
			return ConstFP(32, c.Float64())
		case t.Kind() == types.Float64 || t.Kind() == types.UntypedFloat:
			return ConstFP(64, c.Float64())
		case t.Info()&types.IsString != 0:
			if c.Value.Kind() == constant.String {
				return mkStr(constant.StringVal(c.Value))
			}
			return mkStr(string(rune(c.Int64())))
		case t.Kind() == types.Complex128 || t.Kind() == types.Complex64:
			return bad{}
		}
	}
	panic(fmt.Sprintf("constValue: %s", c))
}

func zero(t types.Type) value {
	switch t := t.(type) {
	case *types.Basic:
		if t.Info()&types.IsUntyped != 0 && t.Kind() != types.UntypedNil {
			t = types.Default(t).(*types.Basic)
		}
		switch {
		case t.Info()&types.IsBoolean != 0:
			return False
		case t.Info()&types.IsInteger != 0:
			return ConstBV(intWidth(t), 0)
		case t.Kind() == types.Float32:
			return ConstFP(32, 0)
		case t.Kind() == types.Float64:
			return ConstFP(64, 0)
		case t.Info()&types.IsString != 0:
			return Str{}
		case t.Kind() == types.UnsafePointer:
			return (*value)(nil)
		case t.Kind() == types.Complex128 || t.Kind() == types.Complex64:
			return bad{}
		case t.Kind() == types.UntypedNil:
			return nil
		}
		panic(fmt.Sprint("zero for unexpected type:", t))
	case *types.Pointer:
		return (*value)(nil)
	case *types.Array:
		a := make(array, t.Len())
		if t.Len() > 0 {
			z := zero(t.Elem())
			switch z.(type) {
			case *Term, Str, *value, iface:
				for i := range a {
					a[i] = z
				}
			default:
				a[0] = z
				for i := 1; i < len(a); i++ {
					a[i] = zero(t.Elem())
				}
			}
		}
		return a
	case *types.Named:
		return zero(t.Underlying())
	case *types.Alias:
		return zero(types.Unalias(t))
	case *types.Interface:
		return iface{}
	case *types.Slice:
		return []value(nil)
	case *types.Struct:
		s := make(structure, t.NumFields())
		for i := range s {
			s[i] = zero(t.Field(i).Type())
		}
		return s
	case *types.Tuple:
		if t.Len() == 1 {
			return zero(t.At(0).Type())
		}
		s := make(tuple, t.Len())
		for i := range s {
			s[i] = zero(t.At(i).Type())
		}
		return s
	case *types.Chan:
		return (*Chan)(nil)
	case *types.Map:
		return (*Map)(nil)
	case *types.Signature:
		return (*ssa.Function)(nil)
	case *types.TypeParam:
		panic("zero of type param")
	}
	panic(fmt.Sprint("zero: unexpected ", t))
}

// load returns a copy of the value of type T at addr.
func load(T types.Type, addr *value) value {
	switch T := T.Underlying().(type) {
	case *types.Struct:
		v := (*addr).(structure)
		a := make(structure, len(v))
		for i := range a {
			a[i] = load(T.Field(i).Type(), &v[i])
		}
		return a
	case *types.Array:
		v := (*addr).(array)
		a := make(array, len(v))
		et := T.Elem()
		if _, basic := et.Underlying().(*types.Basic); basic {
			copy(a, v)
			return a
		}
		for i := range a {
			a[i] = load(et, &v[i])
		}
		return a
	default:
		return *addr
	}
}

func store(T types.Type, addr *value, v value) {
	switch T := T.Underlying().(type) {
	case *types.Struct:
		lhs := (*addr).(structure)
		rhs := v.(structure)
		for i := range lhs {
			store(T.Field(i).Type(), &lhs[i], rhs[i])
		}
	case *types.Array:
		lhs := (*addr).(array)
		rhs := v.(array)
		et := T.Elem()
		if _, basic := et.Underlying().(*types.Basic); basic {
			copy(lhs, rhs)
			return
		}
		for i := range lhs {
			store(et, &lhs[i], rhs[i])
		}
	default:
		*addr = v
	}
}

// copyVal makes an unaliased copy of an aggregate value.
func copyVal(v value) value {
	switch v := v.(type) {
	case structure:
		a := make(structure, len(v))
		for i := range v {
			a[i] = copyVal(v[i])
		}
		return a
	case array:
		a := make(array, len(v))
		for i := range v {
			a[i] = copyVal(v[i])
		}
		return a
	}
	return v
}

// equals returns the Bool term for Go's == on type t.
func equals(t types.Type, x, y value) *Term {
	switch x := x.(type) {
	case *Term:
		yt := y.(*Term)
		if x.S.K == KFP {
			return FEq(x, yt)
		}
		return Eq(x, yt)
	case Str:
		ys := y.(Str)
		if len(x.b) != len(ys.b) {
			return False
		}
		r := True
		for i := range x.b {
			r = And(r, Eq(x.b[i], ys.b[i]))
			if r.IsFalse() {
				return False
			}
		}
		return r
	case *value:
		yp, ok := y.(*value)
		if !ok {
			return False
		}
		return ConstBool(x == yp)
	case *Chan:
		return ConstBool(x == y.(*Chan))
	case *Map:
		return ConstBool(x == y.(*Map))
	case structure:
		ys := y.(structure)
		st := t.Underlying().(*types.Struct)
		r := True
		for i := 0; i < st.NumFields(); i++ {
			if st.Field(i).Name() == "_" {
				continue
			}
			r = And(r, equals(st.Field(i).Type(), x[i], ys[i]))
		}
		return r
	case array:
		ya := y.(array)
		et := t.Underlying().(*types.Array).Elem()
		r := True
		for i := range x {
			r = And(r, equals(et, x[i], ya[i]))
		}
		return r
	case iface:
		yi := y.(iface)
		if x.t == nil || yi.t == nil {
			return ConstBool(x.t == nil && yi.t == nil)
		}
		if !types.Identical(x.t, yi.t) {
			return False
		}
		return equals(x.t, x.v, yi.v)
	case *ssa.Function:
		switch y := y.(type) {
		case *ssa.Function:
			return ConstBool(x == y)
		}
		return False
	case *closure:
		switch y := y.(type) {
		case *closure:
			return ConstBool(x == y)
		}
		return False
	case []value:
		ys, _ := y.([]value)
		return ConstBool((x == nil) == (ys == nil))
	case nil:
		return ConstBool(y == nil)
	}
	panic(fmt.Sprintf("equals: unexpected %T (type %v)", x, t))
}

func eqnil(t types.Type, x, y value) *Term {
	switch t.Underlying().(type) {
	case *types.Map:
		xm, _ := x.(*Map)
		ym, _ := y.(*Map)
		return ConstBool((xm != nil) == (ym != nil))
	case *types.Signature:
		return ConstBool(isNilFunc(x) == isNilFunc(y))
	case *types.Slice:
		xs, _ := x.([]value)
		ys, _ := y.([]value)
		return ConstBool((xs != nil) == (ys != nil))
	}
	return equals(t, x, y)
}

func isNilFunc(v value) bool {
	switch f := v.(type) {
	case *ssa.Function:
		return f == nil
	case *closure:
		return f == nil
	case *hostFunc:
		return f == nil
	case nil:
		return true
	}
	return false
}

func toString(v value) string {
	switch v := v.(type) {
	case *Term:
		return v.String()
	case Str:
		return fmt.Sprintf("%q", v.String())
	case []value:
		var sb strings.Builder
		sb.WriteString("[")
		for i, e := range v {
			if i > 0 {
				sb.WriteByte(' ')
			}
			if i > 20 {
				sb.WriteString("…")
				break
			}
			sb.WriteString(toString(e))
		}
		sb.WriteString("]")
		return sb.String()
	case iface:
		if v.t == nil {
			return "<nil>"
		}
		return fmt.Sprintf("(%s, %s)", v.t, toString(v.v))
	case structure:
		var sb strings.Builder
		sb.WriteString("{")
		for i, e := range v {
			if i > 0 {
				sb.WriteByte(' ')
			}
			sb.WriteString(toString(e))
		}
		sb.WriteString("}")
		return sb.String()
	case *value:
		if v == nil {
			return "<nil>"
		}
		if st, ok := (*v).(structure); ok && len(st) <= 3 {
			return "&" + toString(st)
		}
		return "&<obj>"
	}
	return fmt.Sprintf("<%T>", v)
}
