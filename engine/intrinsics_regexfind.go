package main

// (*regexp.Regexp).FindStringSubmatch on a concrete subject: computed by the host regexp.
// (go-whisper's parseRetentionPart uses it on retention texts, which are concrete in the harnesses.)

func init() {
	reg("(*regexp.Regexp).FindStringSubmatch", func(fr *frame, args []value) value {
		h := hostRe(args[0])
		s, ok := args[1].(Str).concrete()
		if !ok {
			E.inconclusive("regexp.FindStringSubmatch on symbolic subject")
		}
		m := h.re.FindStringSubmatch(s)
		if m == nil {
			return []value(nil)
		}
		r := make([]value, len(m))
		for i, x := range m {
			r[i] = mkStr(x)
		}
		return r
	})
}
