package main

import "go/types"

// fmt.Fprint* to os.Stdout / os.Stderr: package os is not initialised in the engine, so the standard
// streams are nil *os.File values; output to them is discarded (and reported as fully written) instead
// of being treated as a nil-pointer dereference. Wraps the file-system model's fmt.Fprint* intrinsics
// (fs.go registers them first: Go runs init functions in file-name order).

func isStdStream(w value) bool {
	it, ok := w.(iface)
	if !ok || it.t == nil {
		return false
	}
	pt, ok := it.t.(*types.Pointer)
	if !ok {
		return false
	}
	n, ok := pt.Elem().(*types.Named)
	if !ok || n.Obj().Pkg() == nil || n.Obj().Pkg().Path() != "os" || n.Obj().Name() != "File" {
		return false
	}
	p, _ := it.v.(*value)
	return p == nil
}

func init() {
	for _, name := range []string{"fmt.Fprintf", "fmt.Fprintln", "fmt.Fprint"} {
		prev := intrinsics[name]
		if prev == nil {
			panic("intrinsics_stdio.go must be initialised after fs.go: " + name)
		}
		reg(name, func(fr *frame, args []value) value {
			if isStdStream(args[0]) {
				E.StubsUsed["fmt.Fprint* to a standard stream (discarded)"] = true
				return tuple{mkI(0), nilError()}
			}
			return prev(fr, args)
		})
	}
}
