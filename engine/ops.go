package main

import (
	"fmt"
	"go/token"
	"go/types"
	"unicode/utf8"

	"golang.org/x/tools/go/ssa"
)

type hostFunc struct {
	name string
	f    func(fr *frame, args []value) value
}

type hostObj struct {
	name    string
	methods map[string]*hostFunc
	data    interface{}
}

func (h *hostObj) method(name string) value {
	m, ok := h.methods[name]
	if !ok {
		E.inconclusive("host object " + h.name + " has no method " + name)
	}
	return m
}

func isString(t types.Type) bool {
	b, ok := t.Underlying().(*types.Basic)
	return ok && b.Info()&types.IsString != 0
}
func isFloat(t types.Type) bool {
	b, ok := t.Underlying().(*types.Basic)
	return ok && b.Info()&types.IsFloat != 0
}
func isInteger(t types.Type) bool {
	b, ok := t.Underlying().(*types.Basic)
	return ok && b.Info()&types.IsInteger != 0
}
func isBool(t types.Type) bool {
	b, ok := t.Underlying().(*types.Basic)
	return ok && b.Info()&types.IsBoolean != 0
}

// strLess returns the term for x < y (lexicographic, bytes).
func strLess(x, y Str, orEq bool) *Term {
	// result for the empty suffixes
	n := len(x.b)
	if len(y.b) < n {
		n = len(y.b)
	}
	var tail *Term
	if orEq {
		tail = ConstBool(len(x.b) <= len(y.b))
	} else {
		tail = ConstBool(len(x.b) < len(y.b))
	}
	r := tail
	for i := n - 1; i >= 0; i-- {
		r = Ite(Eq(x.b[i], y.b[i]), r, Ult(x.b[i], y.b[i]))
	}
	return r
}

func binop(op token.Token, tx, ty types.Type, x, y value) value {
	switch op {
	case token.EQL:
		return eqnil(tx, x, y)
	case token.NEQ:
		return Not(eqnil(tx, x, y))
	}
	if isString(tx) {
		xs, ys := x.(Str), y.(Str)
		switch op {
		case token.ADD:
			b := make([]*Term, 0, len(xs.b)+len(ys.b))
			b = append(b, xs.b...)
			b = append(b, ys.b...)
			return Str{b}
		case token.LSS:
			return strLess(xs, ys, false)
		case token.LEQ:
			return strLess(xs, ys, true)
		case token.GTR:
			return strLess(ys, xs, false)
		case token.GEQ:
			return strLess(ys, xs, true)
		}
		panic("bad string binop " + op.String())
	}
	a, b := x.(*Term), y.(*Term)
	if isFloat(tx) {
		switch op {
		case token.ADD:
			return FAdd(a, b)
		case token.SUB:
			return FSub(a, b)
		case token.MUL:
			return FMul(a, b)
		case token.QUO:
			return FDiv(a, b)
		case token.LSS:
			return FLt(a, b)
		case token.LEQ:
			return FLe(a, b)
		case token.GTR:
			return FLt(b, a)
		case token.GEQ:
			return FLe(b, a)
		}
		panic("bad float binop " + op.String())
	}
	if isBool(tx) {
		switch op {
		case token.AND, token.LAND:
			return And(a, b)
		case token.OR, token.LOR:
			return Or(a, b)
		}
		panic("bad bool binop " + op.String())
	}
	signed := isSigned(tx)
	switch op {
	case token.ADD:
		return Add(a, b)
	case token.SUB:
		return Sub(a, b)
	case token.MUL:
		return Mul(a, b)
	case token.QUO, token.REM:
		if E.branch(Eq(b, ConstBV(b.S.W, 0))) {
			goPanic("runtime error: integer divide by zero")
		}
		if op == token.QUO {
			if signed {
				return SDiv(a, b)
			}
			return UDiv(a, b)
		}
		if signed {
			return SRem(a, b)
		}
		return URem(a, b)
	case token.AND:
		return BAnd(a, b)
	case token.OR:
		return BOr(a, b)
	case token.XOR:
		return BXor(a, b)
	case token.AND_NOT:
		return BAnd(a, BNot(b))
	case token.SHL, token.SHR:
		// shift count: any integer type
		w := a.S.W
		cnt := b
		if isSigned(ty) {
			if cnt.IsConst() {
				if cnt.Int64() < 0 {
					goPanic("runtime error: negative shift amount")
				}
			} else if E.branch(Slt(cnt, ConstBV(cnt.S.W, 0))) {
				goPanic("runtime error: negative shift amount")
			}
		}
		var c *Term
		if cnt.S.W == w {
			c = cnt
		} else if cnt.S.W < w {
			c = ZExt(cnt, w)
		} else {
			// saturate
			big := Ule(ConstBV(cnt.S.W, uint64(w)), cnt)
			c = Ite(big, ConstBV(w, uint64(w)), Extract(w-1, 0, cnt))
		}
		if op == token.SHL {
			return Shl(a, c)
		}
		if signed {
			return AShr(a, c)
		}
		return LShr(a, c)
	case token.LSS:
		if signed {
			return Slt(a, b)
		}
		return Ult(a, b)
	case token.LEQ:
		if signed {
			return Sle(a, b)
		}
		return Ule(a, b)
	case token.GTR:
		if signed {
			return Slt(b, a)
		}
		return Ult(b, a)
	case token.GEQ:
		if signed {
			return Sle(b, a)
		}
		return Ule(b, a)
	}
	panic(fmt.Sprintf("invalid binary op: %v %s %v", tx, op, ty))
}

func unop(fr *frame, instr *ssa.UnOp, x value) value {
	switch instr.Op {
	case token.ARROW:
		if E.traceCalls {
			E.traceLog = append(E.traceLog, traceEvent{fn: "op:plain-chan-recv in " + fr.fn.String()})
		}
		ch, _ := x.(*Chan)
		v, ok := E.chanRecv(fr.g, ch)
		if !ok {
			v = zero(instr.X.Type().Underlying().(*types.Chan).Elem())
		}
		if instr.CommaOk {
			return tuple{v, ConstBool(ok)}
		}
		return v
	case token.SUB:
		t := x.(*Term)
		if t.S.K == KFP {
			return FNeg(t)
		}
		return Neg(t)
	case token.MUL:
		T := deref(instr.X.Type())
		switch p := x.(type) {
		case *value:
			if p == nil {
				goPanic("runtime error: invalid memory address or nil pointer dereference")
			}
			return load(T, p)
		case symElem:
			return symLoad(p)
		}
		panic(fmt.Sprintf("load from %T", x))
	case token.NOT:
		return Not(x.(*Term))
	case token.XOR:
		return BNot(x.(*Term))
	}
	panic(fmt.Sprintf("invalid unary op %s %T", instr.Op, x))
}

func sliceOp(instr *ssa.Slice, x, lo, hi, max value) value {
	var Len, Cap int
	var elems []value
	var str Str
	isStr := false
	switch x := x.(type) {
	case Str:
		Len = len(x.b)
		Cap = Len
		str = x
		isStr = true
	case []value:
		Len = len(x)
		Cap = cap(x)
		elems = x
	case *value:
		if x == nil {
			goPanic("runtime error: invalid memory address or nil pointer dereference")
		}
		a := (*x).(array)
		Len = len(a)
		Cap = len(a)
		elems = []value(a)
	default:
		panic(fmt.Sprintf("slice: unexpected X type: %T", x))
	}
	get := func(v value, sv ssa.Value, def int) int64 {
		if v == nil {
			return int64(def)
		}
		t := v.(*Term)
		signed := isSigned(sv.Type())
		if t.IsConst() {
			if signed {
				return t.Int64()
			}
			if t.C > 1<<40 {
				return -1
			}
			return int64(t.C)
		}
		// symbolic bound: first split in-range / out-of-range, then concretize
		t64 := toInt64Term(t, signed)
		if !E.branch(Ule(t64, mkI(Cap))) {
			return -1
		}
		return int64(E.concretize(t64, 70000))
	}
	l := get(lo, instr.Low, 0)
	h := get(hi, instr.High, Len)
	m := get(max, instr.Max, Cap)
	if l < 0 || h < 0 || m < 0 || h > int64(Cap) || l > h || m > int64(Cap) || h > m {
		goPanic(fmt.Sprintf("runtime error: slice bounds out of range [%d:%d:%d] with capacity %d", l, h, m, Cap))
	}
	if isStr {
		if h > int64(Len) {
			goPanic(fmt.Sprintf("runtime error: slice bounds out of range [:%d] with length %d", h, Len))
		}
		return Str{str.b[l:h]}
	}
	if elems == nil {
		return []value(nil)
	}
	return elems[l:h:m]
}

func typeAssert(instr *ssa.TypeAssert, itf iface) value {
	var v value
	err := ""
	if itf.t == nil {
		err = fmt.Sprintf("interface conversion: interface is nil, not %s", instr.AssertedType)
	} else if idst, ok := instr.AssertedType.Underlying().(*types.Interface); ok {
		v = itf
		if _, isHost := itf.v.(*hostObj); !isHost {
			if meth, _ := types.MissingMethod(itf.t, idst, true); meth != nil {
				err = fmt.Sprintf("interface conversion: %v is not %v: missing method %s", itf.t, idst, meth.Name())
			}
		}
	} else if types.Identical(itf.t, instr.AssertedType) {
		v = itf.v
	} else {
		err = fmt.Sprintf("interface conversion: interface is %s, not %s", itf.t, instr.AssertedType)
	}
	if err != "" {
		if !instr.CommaOk {
			goPanic(err)
		}
		return tuple{zero(instr.AssertedType), False}
	}
	if instr.CommaOk {
		return tuple{v, True}
	}
	return v
}

func appendValues(a, b []value) []value {
	// Go's append: reuse capacity when it fits, otherwise grow (fresh backing array)
	if len(a)+len(b) <= cap(a) {
		return append(a, b...)
	}
	newcap := 2 * cap(a)
	if newcap < len(a)+len(b) {
		newcap = len(a) + len(b)
	}
	if newcap < 4 {
		newcap = 4
	}
	n := make([]value, len(a), newcap)
	copy(n, a)
	return append(n, b...)
}

func callBuiltin(caller *frame, callpos token.Pos, fn *ssa.Builtin, args []value) value {
	switch fn.Name() {
	case "append":
		if len(args) == 1 {
			return args[0]
		}
		a0, _ := args[0].([]value)
		if s, ok := args[1].(Str); ok {
			return appendValues(a0, termsToSlice(s.b))
		}
		a1, _ := args[1].([]value)
		if a0 == nil && len(a1) == 0 {
			return []value(nil)
		}
		// elements of aggregate type must be copied
		if len(a1) > 0 {
			switch a1[0].(type) {
			case structure, array:
				cp := make([]value, len(a1))
				for i := range a1 {
					cp[i] = copyVal(a1[i])
				}
				a1 = cp
			}
		}
		return appendValues(a0, a1)

	case "copy":
		dst, _ := args[0].([]value)
		var src []value
		if s, ok := args[1].(Str); ok {
			src = termsToSlice(s.b)
		} else {
			src, _ = args[1].([]value)
		}
		n := len(dst)
		if len(src) < n {
			n = len(src)
		}
		if n > 0 {
			switch src[0].(type) {
			case structure, array:
				tmp := make([]value, n)
				for i := 0; i < n; i++ {
					tmp[i] = copyVal(src[i])
				}
				copy(dst, tmp)
				return mkI(n)
			}
		}
		copy(dst, src[:n])
		return mkI(n)

	case "close":
		E.preemptPoint(caller.g, "close(chan)")
		E.chanClose(args[0].(*Chan))
		return nil

	case "delete":
		m := args[0].(*Map)
		if m != nil {
			m.delete(args[1])
		}
		return nil

	case "print", "println":
		return nil

	case "len":
		switch x := args[0].(type) {
		case Str:
			return mkI(len(x.b))
		case array:
			return mkI(len(x))
		case *value:
			if x == nil {
				// len of nil *array is the array length by type; unreachable in practice
				return mkI(0)
			}
			return mkI(len((*x).(array)))
		case []value:
			return mkI(len(x))
		case *Map:
			if x == nil {
				return mkI(0)
			}
			return mkI(x.length())
		case *Chan:
			if x == nil {
				return mkI(0)
			}
			E.preemptPoint(caller.g, "len(chan)")
			return mkI(len(x.buf))
		}
		panic(fmt.Sprintf("len: illegal operand: %T", args[0]))

	case "cap":
		switch x := args[0].(type) {
		case array:
			return mkI(len(x))
		case *value:
			return mkI(len((*x).(array)))
		case []value:
			return mkI(cap(x))
		case *Chan:
			if x == nil {
				return mkI(0)
			}
			return mkI(x.cap)
		}
		panic(fmt.Sprintf("cap: illegal operand: %T", args[0]))

	case "min", "max":
		t := fn.Type().(*types.Signature).Params().At(0).Type()
		r := args[0]
		for _, a := range args[1:] {
			var less *Term
			if fn.Name() == "min" {
				less = binop(token.LSS, t, t, a, r).(*Term)
			} else {
				less = binop(token.GTR, t, t, a, r).(*Term)
			}
			if s, ok := r.(Str); ok {
				if E.branch(less) {
					r = a
				} else {
					r = s
				}
			} else {
				r = Ite(less, a.(*Term), r.(*Term))
			}
		}
		return r

	case "panic":
		panic(targetPanic{v: args[0]})

	case "recover":
		return doRecover(caller)

	case "ssa:wrapnilchk":
		recv := args[0]
		if p, ok := recv.(*value); ok && p == nil {
			goPanic(fmt.Sprintf("value method %s.%s called using nil pointer", mustConcStr(args[1]), mustConcStr(args[2])))
		}
		return recv

	case "ssa:deferstack":
		return &caller.defers

	case "clear":
		switch x := args[0].(type) {
		case *Map:
			if x != nil {
				x.entries = nil
			}
		case []value:
			if len(x) > 0 {
				t := fn.Type().(*types.Signature).Params().At(0).Type().Underlying().(*types.Slice).Elem()
				for i := range x {
					x[i] = zero(t)
				}
			}
		}
		return nil
	}
	panic("unknown built-in: " + fn.Name())
}

// ---------- conversions

func conv(t_dst, t_src types.Type, x value) value {
	ut_src := t_src.Underlying()
	ut_dst := t_dst.Underlying()

	switch ut_dst.(type) {
	case *types.Signature, *types.Chan, *types.Map, *types.Struct, *types.Array, *types.Interface:
		return x
	case *types.Pointer:
		return x // incl. unsafe.Pointer -> *T
	case *types.Slice:
		// string -> []byte / []rune
		if s, ok := x.(Str); ok {
			elem := ut_dst.(*types.Slice).Elem().Underlying().(*types.Basic)
			if elem.Kind() == types.Uint8 {
				return appendValues(make([]value, 0, len(s.b)), termsToSlice(s.b))
			}
			// []rune
			if cs, ok := s.concrete(); ok {
				var r []value
				for _, ru := range cs {
					r = append(r, ConstBV(32, uint64(ru)))
				}
				if r == nil {
					r = []value{}
				}
				return r
			}
			// symbolic: ASCII only
			r := make([]value, len(s.b))
			for i, b := range s.b {
				E.assumeASCII(b)
				r[i] = ZExt(b, 32)
			}
			return r
		}
		return x
	}

	// dst is basic
	db, ok := ut_dst.(*types.Basic)
	if !ok {
		panic(fmt.Sprintf("unsupported conversion %v -> %v", t_src, t_dst))
	}
	if db.Kind() == types.UnsafePointer {
		return x
	}
	if db.Info()&types.IsString != 0 {
		switch v := x.(type) {
		case Str:
			return v
		case []value:
			// []byte or []rune
			et := ut_src.(*types.Slice).Elem().Underlying().(*types.Basic)
			if et.Kind() == types.Uint8 {
				b := make([]*Term, len(v))
				for i := range v {
					b[i] = v[i].(*Term)
				}
				return Str{b}
			}
			var out []*Term
			for _, r := range v {
				rt := r.(*Term)
				if rt.IsConst() {
					out = append(out, mkStr(string(rune(int32(rt.C)))).b...)
				} else {
					E.assume(Ult(rt, ConstBV(32, 0x80)))
					out = append(out, Extract(7, 0, rt))
				}
			}
			return Str{out}
		case *Term:
			// integer -> string (rune)
			if v.IsConst() {
				return mkStr(string(rune(v.Int64())))
			}
			E.assume(Ult(ZExt(v, 64), mkI(0x80)))
			return Str{[]*Term{Extract(7, 0, v)}}
		}
		panic(fmt.Sprintf("conv to string from %T", x))
	}
	t, ok := x.(*Term)
	if !ok {
		// e.g. unsafe.Pointer -> uintptr
		if db.Kind() == types.Uintptr {
			return ConstBV(64, 0xdead0000)
		}
		panic(fmt.Sprintf("unsupported conversion %v -> %v (%T)", t_src, t_dst, x))
	}
	switch {
	case db.Info()&types.IsInteger != 0:
		w := intWidth(db)
		if t.S.K == KFP {
			return FToBV(t, db.Info()&types.IsUnsigned == 0, w)
		}
		if t.S.K == KBool {
			panic("bool to int")
		}
		if w <= t.S.W {
			return Extract(w-1, 0, t)
		}
		if isSigned(t_src) {
			return SExt(t, w)
		}
		return ZExt(t, w)
	case db.Info()&types.IsFloat != 0:
		fw := 64
		if db.Kind() == types.Float32 {
			fw = 32
		}
		if t.S.K == KFP {
			return FToFP(t, fw)
		}
		return FFromBV(t, isSigned(t_src), fw)
	case db.Info()&types.IsBoolean != 0:
		return t
	}
	panic(fmt.Sprintf("unsupported conversion: %s -> %s", t_src, t_dst))
}

func (e *Engine) assumeASCII(b *Term) {
	if b.IsConst() {
		if b.C >= 0x80 {
			e.inconclusive("non-ASCII constant byte in rune conversion of partly symbolic string")
		}
		return
	}
	e.assume(Ult(b, ConstBV(8, 0x80)))
}

// ---------- iteration

type iter interface{ next() tuple }

type strIter struct {
	s Str
	i int
}

func (it *strIter) next() tuple {
	if it.i >= len(it.s.b) {
		return tuple{False, mkI(0), ConstBV(32, 0)}
	}
	b := it.s.b[it.i]
	idx := it.i
	if b.IsConst() && b.C >= 0x80 {
		// decode concretely as far as constants go
		var buf []byte
		for j := it.i; j < len(it.s.b) && j < it.i+4; j++ {
			if !it.s.b[j].IsConst() {
				break
			}
			buf = append(buf, byte(it.s.b[j].C))
		}
		r, n := utf8.DecodeRune(buf)
		it.i += n
		return tuple{True, mkI(idx), ConstBV(32, uint64(r))}
	}
	if !b.IsConst() {
		E.assumeASCII(b)
	}
	it.i++
	return tuple{True, mkI(idx), ZExt(b, 32)}
}

type mapIter struct {
	m    *Map
	ents []*mapEntry
	i    int
}

func (it *mapIter) next() tuple {
	for it.i < len(it.ents) {
		e := it.ents[it.i]
		it.i++
		// entry may have been deleted meanwhile
		for _, x := range it.m.entries {
			if x == e {
				return tuple{True, e.key, e.val}
			}
		}
	}
	return tuple{False, nil, nil}
}

func rangeIter(x value, t types.Type) iter {
	switch x := x.(type) {
	case *Map:
		it := &mapIter{m: x}
		if x != nil {
			it.ents = append(it.ents, x.entries...)
			if E.mapReverse {
				for i, j := 0, len(it.ents)-1; i < j; i, j = i+1, j-1 {
					it.ents[i], it.ents[j] = it.ents[j], it.ents[i]
				}
			}
		}
		return it
	case Str:
		return &strIter{s: x}
	}
	panic(fmt.Sprintf("cannot range over %T", x))
}

// ---------- maps

type mapEntry struct {
	key, val value
}

type Map struct {
	t       *types.Map
	entries []*mapEntry
	index   map[string]*mapEntry // concrete-key fast path
}

func newMap(t *types.Map) *Map { return &Map{t: t, index: map[string]*mapEntry{}} }

func (m *Map) length() int { return len(m.entries) }

// concKey returns a canonical string for fully concrete keys.
func concKey(v value) (string, bool) {
	switch v := v.(type) {
	case *Term:
		if v.IsConst() {
			return fmt.Sprintf("t%d:%x", v.S.W, v.C), true
		}
		return "", false
	case Str:
		s, ok := v.concrete()
		return "s" + s, ok
	case *value:
		return fmt.Sprintf("p%p", v), true
	case *Chan:
		return fmt.Sprintf("c%p", v), true
	case iface:
		if v.t == nil {
			return "inil", true
		}
		s, ok := concKey(v.v)
		return "i" + v.t.String() + "|" + s, ok
	case structure:
		r := "{"
		for _, f := range v {
			s, ok := concKey(f)
			if !ok {
				return "", false
			}
			r += s + ","
		}
		return r + "}", true
	case array:
		r := "["
		for _, f := range v {
			s, ok := concKey(f)
			if !ok {
				return "", false
			}
			r += s + ","
		}
		return r + "]", true
	}
	return "", false
}

// find locates the entry whose key equals k, forking on symbolic equalities.
func (m *Map) find(k value) *mapEntry {
	if m == nil {
		return nil
	}
	ck, conc := concKey(k)
	if conc {
		if e, ok := m.index[ck]; ok {
			return e
		}
	}
	kt := m.t.Key()
	for _, e := range m.entries {
		if conc {
			if _, ec := concKey(e.key); ec {
				continue // concrete vs concrete handled by index
			}
		}
		eq := equals(kt, e.key, k)
		if eq.IsFalse() {
			continue
		}
		if E.branch(eq) {
			return e
		}
	}
	return nil
}

func (m *Map) insert(k, v value) {
	if e := m.find(k); e != nil {
		e.val = v
		return
	}
	e := &mapEntry{k, v}
	m.entries = append(m.entries, e)
	if ck, ok := concKey(k); ok {
		m.index[ck] = e
	}
}

func (m *Map) delete(k value) {
	e := m.find(k)
	if e == nil {
		return
	}
	for i, x := range m.entries {
		if x == e {
			m.entries = append(m.entries[:i:i], m.entries[i+1:]...)
			break
		}
	}
	if ck, ok := concKey(e.key); ok {
		delete(m.index, ck)
	}
}

func lookup(instr *ssa.Lookup, x, idx value) value {
	switch x := x.(type) {
	case *Map:
		var v value
		ok := false
		if e := x.find(idx); e != nil {
			v = e.val
			ok = true
		}
		if !ok {
			v = zero(instr.X.Type().Underlying().(*types.Map).Elem())
		} else {
			v = copyVal(v)
		}
		if instr.CommaOk {
			return tuple{v, ConstBool(ok)}
		}
		return v
	case Str:
		// string indexing is ssa.Index or Lookup
		t := idx.(*Term)
		i64 := toInt64Term(t, isSigned(instr.Index.Type()))
		if !E.branch(Ult(i64, mkI(len(x.b)))) {
			goPanic(fmt.Sprintf("runtime error: index out of range with length %d", len(x.b)))
		}
		if i64.IsConst() {
			return x.b[i64.C]
		}
		return symLoad(symElem{termsToSlice(x.b), i64})
	}
	panic(fmt.Sprintf("unexpected x type in Lookup: %T", x))
}
