package main

import (
	"crypto/md5"
	"fmt"
)

// crypto/md5.Sum as an uninterpreted function.
//
// concrete input  -> the real digest, computed natively
// symbolic input  -> digest byte k = uf_md5_<len>_<k>(input bytes packed 8 per word)
//
// Equal inputs give equal outputs by congruence (the same term vector even gives the same terms).
// Consistency between the two worlds: whenever a symbolic input of length n and a concrete input of
// length n occur on the same path, the facts uf_md5_n_k(concrete input) = real digest byte k are added
// to the path condition, so a model in which the symbolic input equals a concrete one must use the
// real digest for it.

type md5PathState struct {
	conc map[int][][]byte // concrete inputs seen on this path, by length
	sym  map[int]bool     // lengths for which a symbolic input was seen
	done map[string]bool  // concrete inputs whose axioms are already in the path condition
}

func md5State() *md5PathState {
	if st, ok := E.ghost["engine.md5"].(*md5PathState); ok {
		return st
	}
	st := &md5PathState{conc: map[int][][]byte{}, sym: map[int]bool{}, done: map[string]bool{}}
	E.ghost["engine.md5"] = st
	return st
}

func md5UFBytes(in []*Term) []*Term {
	args := packBytes(in)
	out := make([]*Term, md5.Size)
	for k := range out {
		out[k] = UF(fmt.Sprintf("uf_md5_%d_%d", len(in), k), BV(8), args...)
	}
	return out
}

func md5Axioms(st *md5PathState, b []byte) {
	if st.done[string(b)] {
		return
	}
	st.done[string(b)] = true
	d := md5.Sum(b)
	in := make([]*Term, len(b))
	for i, c := range b {
		in[i] = byteConsts[c]
	}
	uf := md5UFBytes(in)
	for k := range uf {
		E.addPC(Eq(uf[k], byteConsts[d[k]]))
	}
}

func md5Sum(in []*Term) array {
	st := md5State()
	n := len(in)
	b := make([]byte, n)
	conc := true
	for i, t := range in {
		if !t.IsConst() {
			conc = false
			break
		}
		b[i] = byte(t.C)
	}
	out := make(array, md5.Size)
	if conc && E.ghost["engine.md5.alluf"] != nil {
		// verifMD5Uninterpreted(): an arbitrary digest even for concrete inputs (over-approximation of MD5)
		E.StubsUsed["crypto/md5.Sum (uninterpreted function on every input)"] = true
		for k, t := range md5UFBytes(in) {
			out[k] = t
		}
		return out
	}
	if conc {
		E.StubsUsed["crypto/md5.Sum (native on concrete input)"] = true
		d := md5.Sum(b)
		for k := range out {
			out[k] = byteConsts[d[k]]
		}
		if st.sym[n] {
			md5Axioms(st, b)
		} else {
			st.conc[n] = append(st.conc[n], b)
		}
		return out
	}
	E.StubsUsed["crypto/md5.Sum (uninterpreted function on symbolic input)"] = true
	if !st.sym[n] {
		st.sym[n] = true
		for _, c := range st.conc[n] {
			md5Axioms(st, c)
		}
		st.conc[n] = nil
	}
	for k, t := range md5UFBytes(in) {
		out[k] = t
	}
	return out
}

func init() {
	// verifMD5Uninterpreted(): from here on (this path) md5.Sum is an uninterpreted function on concrete
	// inputs too. Must be called before the first md5.Sum of the path.
	verifFuncs["verifMD5Uninterpreted"] = func(fr *frame, a []value) value {
		E.ghost["engine.md5.alluf"] = true
		return nil
	}
	reg("crypto/md5.Sum", func(fr *frame, args []value) value {
		return md5Sum(bytesToTerms(args[0]))
	})
}
