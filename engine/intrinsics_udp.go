package main

// UDP socket model: datagrams queued by the harness are handed out by ReadFrom one at a time.

type udpState struct {
	queue  [][]*Term
	closed bool
}

func (e *Engine) udp() *udpState {
	if e.udpSt == nil {
		e.udpSt = &udpState{}
	}
	return e.udpSt
}

func init() {
	verifFuncs["verifNewUDPConn"] = func(fr *frame, a []value) value {
		st := zero(pkgType("net", "UDPConn"))
		cell := value(st)
		return &cell
	}
	verifFuncs["verifUDPSend"] = func(fr *frame, a []value) value {
		u := E.udp()
		u.queue = append(u.queue, append([]*Term(nil), bytesToTerms(a[1])...))
		return nil
	}
	verifFuncs["verifUDPClose"] = func(fr *frame, a []value) value {
		E.udp().closed = true
		return nil
	}
	readFrom := func(fr *frame, args []value) value {
		u := E.udp()
		E.blockUntil(fr.g, "UDP ReadFrom", func() bool { return len(u.queue) > 0 || u.closed })
		if len(u.queue) == 0 {
			return tuple{mkI(0), iface{}, mkError("read udp: use of closed network connection")}
		}
		dg := u.queue[0]
		u.queue = u.queue[1:]
		buf, _ := args[1].([]value)
		n := len(dg)
		if n > len(buf) {
			n = len(buf)
		}
		for i := 0; i < n; i++ {
			buf[i] = dg[i]
		}
		return tuple{mkI(n), iface{}, nilError()}
	}
	reg("(*net.UDPConn).ReadFrom", readFrom)
	reg("(*net.UDPConn).Close", func(fr *frame, args []value) value {
		E.udp().closed = true
		return nilError()
	})
	reg("(*net.conn).ReadFrom", readFrom)
}
