# Obligations per property: groups of gosym runs (one process per group = one package load).

def spec(id, harness, params=None, tier="quick", **kw):
    d = {"id": id, "harness": harness, "tier": tier}
    if params:
        d["params"] = params
    d.update(kw)
    return d

C03_PATTERNS_QUICK = [
    "^ab?c", "^ab*", "^ab{0}c", r"^a\.*b", "^foo|bar", "^a(b|c)", "(?i)^abc", "^abc$", "a^b", "^abc", "abc", "^a.c", r"^a\.c",
    "^[ab]c", "^ab+", "^a|b", "^(ab)?c", r"^a\.?b", "^a-b_c", "^ab{2}", "^a$|b", ".*", "^$", "b$", r"^a\b", "^ab{1,2}", "(^a)|(^b)",
    r"^stats\.(a|b)[0-9]+", "^aB", "^a\\.b\\.", "^ab??c", "^ab*?c", "^a{0}b", "^a??b",
]

PROPS = {}
NOT_APPLICABLE = {}
HOOK_COMMITS = []

PROPS["C03"] = {
    "bounds": "names 0..6 ASCII bytes, literal options 0..1 symbolic bytes, regex/notRegex from an enumerated family of concrete patterns",
    "outside": "non-ASCII names under regex filters; patterns outside the family",
    "assumptions": ["input bytes < 0x80 when a regex is configured", "regexp.Match modelled as bounded NFA unrolling of the real syntax.Prog"],
    "groups": [
        {"pkg": "matcher", "hdir": "matcher",
         "specs": [spec("C03/match/literal", "VerifC03Literal")] +
                  [spec("C03/match/regex=" + p, "VerifC03Regex", {"regex": p, "notRegex": ""}) for p in C03_PATTERNS_QUICK] +
                  [spec("C03/match/notRegex=" + p, "VerifC03Regex", {"regex": "", "notRegex": p}) for p in C03_PATTERNS_QUICK],
         },
    ],
}

PROPS["C03"]["groups"] += [
    {"pkg": "route", "hdir": "route", "specs": [spec("C03/dest/name-only", "VerifC03DestName")]},
    {"pkg": "table", "hdir": "table", "specs": [spec("C03/aggroute/name-only", "VerifC03AggRouteName"), spec("C03/table/name-only", "VerifC03TableName")]},
]

PROPS["C01"] = {
    "bounds": "0..3 blacklist entries x 0..3 capture routes, 0..3 real destinations per send-all/send-first route, names 1..3 printable bytes, every entry with a free one-byte prefix filter (all accept/reject combinations)",
    "outside": "non-carbon route types (enter only as capture routes); real sockets; filter semantics (C03)",
    "assumptions": ["destinations are observed through their In channel (not running)", "validation level none so every 3-field line is valid"],
    "groups": [
        {"pkg": "table", "hdir": "table", "specs": [spec("C01/table", "VerifC01Table")]},
        {"pkg": "route", "hdir": "route", "specs": [spec("C01/route", "VerifC01Route")]},
    ],
}

C03_AGG = [("^a(b|c)", "c$"), ("^ab?c", ""), ("", "^a"), ("b", "^ab"), ("^a.c$", "^ab")]
PROPS["C03"]["groups"] += [
    {"pkg": "aggregator", "hdir": "aggregator",
     "specs": [spec("C03/agg/regex=%s/notRegex=%s" % (r, n), "VerifC03Agg", {"regex": r, "notRegex": n}) for r, n in C03_AGG if r] +
              [spec("C03/cache/regex=%s" % r, "VerifC03Cache", {"regex": r}) for r in ["^a(b|c)", "b"]]},
]
