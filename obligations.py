# Obligations per property: groups of gosym runs (one process per group = one package load).

def spec(id, harness, params=None, tier="quick", **kw):
    d = {"id": id, "harness": harness, "tier": tier}
    if params:
        d["params"] = params
    d.update(kw)
    return d

C03_PATTERNS_QUICK = [
    "^ab?c", "^ab*", "^ab{0}c", r"^a\.*b", "^foo|bar", "^a(b|c)", "(?i)^abc", "^abc$", "a^b", "^abc", "abc", "^a.c", r"^a\.c",
    "^[ab]c", "^ab+", "^a|b", "^(ab)?c", r"^a\.?b", "^a-b_c", "^ab{2}", "^a$|b", ".*", "^$", "b$", r"^a\b", "^ab{1,2}", "(^a)|(^b)",
    r"^stats\.(a|b)[0-9]+", "^aB", "^a\\.b\\.", "^ab??c", "^ab*?c", "^a{0}b", "^a??b",
    # case folding that starts after the anchor (added after seeded change C03 was missed by the first family)
    "^a[Bb]c", "^(?i)ab", "^a(?i:b)c", "^a[Bb]", "(?i:^a)b", "^[Aa]b",
]

PROPS = {}
NOT_APPLICABLE = {}
HOOK_COMMITS = []

PROPS["C03"] = {
    "bounds": "names 0..4 ASCII bytes in the quick tier and 0..6 in the thorough tier, literal options 0..1 symbolic bytes, regex/notRegex from an enumerated family of 40 concrete patterns (obligations.py), each as regex and as notRegex; all six options on one filter (prefix / notPrefix 0..2 free bytes, sub / notSub 0..1, two concrete regex / notRegex pairs, names 0..3 bytes); aggregation path and cache: names 0..4 / 1..2 bytes (cache also: three lookups of names of up to 3 free printable bytes under regex b$, so that tagged names sharing the text before the first ';' occur); a route / destination filter with all six options set, up to two of them cleared or replaced at runtime (modRoute / modDest), names 1..3 bytes",
    "outside": "non-ASCII names under regex filters; patterns outside the family",
    "assumptions": ["input bytes < 0x80 when a regex is configured", "regexp.Match modelled as bounded NFA unrolling of the real syntax.Prog"],
    "groups": [
        {"pkg": "matcher", "hdir": "matcher",
         "specs": [spec("C03/match/literal", "VerifC03Literal"),
                   spec("C03/match/all-six-options/regex=/notRegex=^a.*c$", "VerifC03Combined", {"regex": "", "notRegex": "^a.*c$", "maxlen": "xxx"}),
                   spec("C03/match/all-six-options/regex=^ab/notRegex=c$", "VerifC03Combined", {"regex": "^ab", "notRegex": "c$", "maxlen": "xxx"}),
                   spec("C03/match/all-six-options/regex=^a(b|c)/notRegex=^ab?c", "VerifC03Combined", {"regex": "^a(b|c)", "notRegex": "^ab?c", "maxlen": "xxxx"}, tier="thorough")] +
                  [spec("C03/match/regex=" + p, "VerifC03Regex", {"regex": p, "notRegex": "", "maxlen": "xxxx"}) for p in C03_PATTERNS_QUICK] +
                  [spec("C03/match/notRegex=" + p, "VerifC03Regex", {"regex": "", "notRegex": p, "maxlen": "xxxx"}) for p in C03_PATTERNS_QUICK] +
                  [spec("C03/match/len<=6/regex=" + p, "VerifC03Regex", {"regex": p, "notRegex": "", "maxlen": "xxxxxx"}, tier="thorough") for p in C03_PATTERNS_QUICK] +
                  [spec("C03/match/len<=6/notRegex=" + p, "VerifC03Regex", {"regex": "", "notRegex": p, "maxlen": "xxxxxx"}, tier="thorough") for p in C03_PATTERNS_QUICK],
         },
    ],
}

PROPS["C03"]["groups"] += [
    {"pkg": "route", "hdir": "route", "specs": [spec("C03/dest/name-only", "VerifC03DestName"),
                                                 spec("C03/updated-filter/route", "VerifC03UpdatedFilter", {"where": "route"}),
                                                 spec("C03/updated-filter/dest", "VerifC03UpdatedFilter", {"where": "dest"})]},
    {"pkg": "table", "hdir": "table", "specs": [spec("C03/aggroute/name-only", "VerifC03AggRouteName"), spec("C03/table/name-only", "VerifC03TableName"), spec("C03/table/dest-filter/name-only", "VerifC03TableDestName")]},
]

PROPS["C01"] = {
    "bounds": "0..3 blacklist entries x 0..3 capture routes, 0..3 real destinations per send-all/send-first route, names 1..3 printable bytes, every entry with a free one-byte prefix filter (all accept/reject combinations)",
    "outside": "non-carbon route types (enter only as capture routes); real sockets; filter semantics (C03)",
    "assumptions": ["destinations are observed through their In channel (not running)", "validation level none so every 3-field line is valid"],
    "groups": [
        {"pkg": "table", "hdir": "table", "specs": [spec("C01/table", "VerifC01Table"), spec("C01/rewritten", "VerifC01Rewritten"), spec("C01/table/entries<=4", "VerifC01Table", {"max": "4"}, tier="thorough")]},
        {"pkg": "route", "hdir": "route", "specs": [spec("C01/route", "VerifC01Route"), spec("C01/route/dests<=5", "VerifC01Route", {"max": "5"}, tier="thorough")]},
    ],
}

C03_AGG = [("^a(b|c)", "c$"), ("^ab?c", ""), ("", "^a"), ("b", "^ab"), ("^a.c$", "^ab")]
PROPS["C03"]["groups"] += [
    {"pkg": "aggregator", "hdir": "aggregator",
     "specs": [spec("C03/agg/regex=%s/notRegex=%s" % (r, n), "VerifC03Agg", {"regex": r, "notRegex": n}) for r, n in C03_AGG if r] +
              [spec("C03/cache/regex=%s" % r, "VerifC03Cache", {"regex": r}) for r in ["^a(b|c)", "b"]] +
              [spec("C03/cache/regex=b$/names<=3", "VerifC03Cache", {"regex": "b$", "maxlen": "3"})]},
]

PROPS["C18"] = {
    "bounds": "tables with 1..3 entries per list (routes, blacklist, rewriters, aggregations), histories of 1..2 admin operations with free index/key (incl. unknown key, index beyond the end); routes with 1..3 destinations; a consistent-hashing route with 2 destinations (real ring, 100 replicas), 1..2 changes, held ring compared entry by entry; one destination change carrying any subset of {addr, prefix, sub, regex}; one route filter change carrying two options: refused as a whole when one option is bad (either visiting order), and a concurrent Match during an accepted one sees the old or the new filter (at most 2 preemptions); delDest / modDest / modRoute addressed through the table by route key (two real routes with two destinations each; key incl. unknown, index incl. beyond the end); concurrent runs: one dispatcher against an admin goroutine making two changes (add rewriter / blacklist entry, delete route), and two admin goroutines making one change each (4x4 operation pairs), every interleaving with at most 2 (thorough 4) preemptions at lock / atomic / channel operations",
    "outside": "interleavings beyond the preemption bound or at plain memory accesses, and memory-model effects: beyond the bound the property is reduced to snapshot immutability + single snapshot load per dispatch + model-list equality (DESIGN.md C18)",
    "assumptions": ["copy-on-write reduction: if a published snapshot is never modified and each dispatch loads exactly one snapshot, any interleaving equals the change happening before or after the dispatch"],
    "groups": [
        {"pkg": "table", "hdir": "table", "specs": [spec("C18/table", "VerifC18Table"), spec("C18/readers", "VerifC18Readers"), spec("C18/table/route-ops-by-key", "VerifC18TableRouteOps"), spec("C18/table/n<=4,ops<=2", "VerifC18Table", {"maxn": "4"}, tier="thorough"), spec("C18/table/n<=2,ops<=3", "VerifC18Table", {"maxn": "2", "maxops": "3"}, tier="thorough")]},
        {"pkg": "route", "hdir": "route", "specs": [spec("C18/route", "VerifC18Route"), spec("C18/hash-route", "VerifC18HashRoute")]},
        {"pkg": "destination", "hdir": "destination", "specs": [spec("C18/destination-update/all-option-subsets", "VerifC18DestUpdate")]},
        {"pkg": "route", "hdir": "route", "native_optional": True, "specs": [spec("C18/route/update-is-one-change/preemptions<=2", "VerifC18RouteUpdateAtomic", {"preemptions": "2"})]},
        # interleavings as decision variables (bounded preemption at lock / atomic / channel operations)
        {"pkg": "table", "hdir": "table", "native_optional": True, "specs": [
            spec("C18/concurrent/dispatch-vs-addRewriter+delRoute/preemptions<=2", "VerifC18Concurrent", {"kind": "rewriter", "preemptions": "2"}),
            spec("C18/concurrent/dispatch-vs-addBlacklist+delRoute/preemptions<=2", "VerifC18Concurrent", {"kind": "blacklist", "preemptions": "2"}),
            spec("C18/concurrent/two-admin-changes/preemptions<=2", "VerifC18Writers", {"preemptions": "2"}),
            spec("C18/concurrent/dispatch-vs-addRewriter+delRoute/preemptions<=4", "VerifC18Concurrent", {"kind": "rewriter", "preemptions": "4"}, tier="thorough"),
            spec("C18/concurrent/two-admin-changes/preemptions<=4", "VerifC18Writers", {"preemptions": "4"}, tier="thorough"),
        ]},
    ],
}

PROPS["C02"] = {
    "bounds": "arbitrary ASCII byte strings of 0..5 bytes as the line (quick) and arbitrary bytes (all 256 values) of 0..3 bytes (thorough) x all 3x2 configured validation levels; level names: all spellings of up to 3 bytes plus the documented ones; two to three lines of one series rejected for the same reason in a row (the report shows the latest text after each); the same gate after the table went through runtime changes (an entry of every kind added and deleted again), on lines of 0..4 bytes and on lines shaped k=v d d with free k, v (where the metrics2.0 levels disagree); the same gate with a blacklist entry that matches every name (lines of 0..4 ASCII bytes)",
    "outside": "numeric spellings accepted by strconv.ParseFloat (modelled: digit strings exactly, everything else an uninterpreted validity predicate); TOML decoding of the level strings; lines longer than the bound",
    "assumptions": ["oracle for 'passes validation' is carbon20.ValidatePacket called by the harness with the levels the harness configured (the gate must use exactly the configured levels)", "strconv.ParseFloat: exact on 1..15 digit strings, uninterpreted otherwise"],
    "groups": [
        {"pkg": "table", "hdir": "table", "specs": [
            spec("C02/gate/ascii<=5", "VerifC02Gate", {"ascii": "1", "maxlen": "xxxxx"}),
            spec("C02/gate/behind-a-blacklist/ascii<=4", "VerifC02Gate", {"ascii": "1", "maxlen": "xxxx", "blacklist": "1"}),
            spec("C02/gate/after-runtime-changes/ascii<=4", "VerifC02Gate", {"ascii": "1", "maxlen": "xxxx", "after-changes": "1"}),
            spec("C02/gate/after-runtime-changes/m20-shaped-line", "VerifC02Gate", {"ascii": "1", "maxlen": "", "after-changes": "1", "m20name": "1"}),
            spec("C02/gate/m20-shaped-line", "VerifC02Gate", {"ascii": "1", "maxlen": "", "m20name": "1"}),
            spec("C02/gate/bytes<=2", "VerifC02Gate", {"ascii": "0", "maxlen": "xx"}, tier="thorough"),
            spec("C02/gate/ascii<=6", "VerifC02Gate", {"ascii": "1", "maxlen": "xxxxxx"}, tier="thorough"),
            spec("C02/bad-report/latest-text", "VerifC02BadReportLatest"),
            spec("C02/levels", "VerifC02Levels")]},
        {"pkg": "badmetrics", "hdir": "badmetrics", "specs": [spec("C02/bad-report/queue-full", "VerifC02BadQueueFull")]},
    ],
}

PROPS["C05"] = {
    "bounds": "buffered writer: buffer size S in 1..3 (thorough 1..5), arbitrary fill and content, one Write of 0..2S+2 symbolic bytes or one Flush from that arbitrary state (one-step induction), underlying writer accepting any prefix per call; connection writer: 1..3 lines of 1..3 symbolic bytes, a flush tick before any line, S in 1..3; an address change (new connection) while the old connection, whose endpoint had stopped reading, still holds 3..4 lines, then 1..2 lines with a free byte for the new connection",
    "outside": "the kernel socket (the stub is the io.Writer contract); pickle encoding content (C16); S beyond the bound (no size-dependent branch other than the comparisons ranged over)",
    "assumptions": ["io.Writer contract for the underlying connection: 0<=n<=len(p), n<len(p) => err!=nil", "go-metrics timers/histograms are no-op shells (Timer.Time still calls its function)"],
    "groups": [
        {"pkg": "destination", "hdir": "destination", "specs": [
            spec("C05/writer/write-step", "VerifC05WriteStep"), spec("C05/writer/flush-step", "VerifC05FlushStep"),
            spec("C05/writer/write-step/S<=5", "VerifC05WriteStep", {"maxS": "5"}, tier="thorough"), spec("C05/writer/flush-step/S<=5", "VerifC05FlushStep", {"maxS": "5"}, tier="thorough"),
            spec("C05/conn/handledata/lines<=4", "VerifC05HandleData", {"maxlines": "4"}, tier="thorough"),
            spec("C05/conn/write", "VerifC05ConnWrite"), spec("C05/conn/handledata", "VerifC05HandleData")]},
        # "the only lines that may be absent are those counted as dropped because the connection was slow":
        # the composed relay scenario of C06 (healthy / slow-then-reading endpoint: received + slow_conn drops = handed off)
        {"pkg": "destination", "hdir": "destination", "native_optional": True, "specs": [spec("C05/relay/received-or-counted", "VerifC06Steady")]},
        # a new connection (address changed at runtime) while the old one still holds lines: each connection's stream is its own
        {"pkg": "destination", "hdir": "destination", "native_optional": True, "specs": [spec("C05/relay/address-change-while-old-connection-holds-lines", "VerifC05AddrUpdate")]},
    ],
}

PROPS["C19"] = {
    "bounds": "one Ordered call from an arbitrary register state (one-step induction: own register present/absent with any value, one other register), keys 1..3 symbolic bytes; sequences of 3 calls over two 2-byte names; distinct names of 1..3 free bytes each never share a register, and no printable name of 5..6 free bytes shares the register of one of 3 concrete names (enough free bytes for a collision partner to exist under any 32-bit hash; thorough: two free 4-byte names); two concurrent Ordered calls on the same 2-byte name with free timestamps followed by a third call, every interleaving with at most 2 (thorough 3) preemptions at lock / atomic / channel operations",
    "outside": "interleavings beyond the preemption bound or at plain memory accesses (beyond the bound reduced to: sequential max-register spec + the global mutex being held across the whole compare-and-set and released on every path); more than two concurrent callers; 64-bit hash collisions of longer names",
    "assumptions": ["mutual exclusion by the global mutex + sequential specification imply linearizability to a max-register per name"],
    "groups": [
        {"pkg": "validate", "hdir": "validate", "specs": [spec("C19/step", "VerifC19Step"), spec("C19/seq", "VerifC19Seq"), spec("C19/fnv-injective", "VerifC19Injective")]},
        {"pkg": "validate", "hdir": "validate", "specs": [
            spec("C19/fnv-injective/fixed=abcd/other<=6", "VerifC19Injective", {"fixed": "abcd", "len": "6"}),
            spec("C19/fnv-injective/fixed=a.b/other<=5", "VerifC19Injective", {"fixed": "a.b", "len": "5"}),
            spec("C19/fnv-injective/fixed=servers.web01.cpu.user/other<=6", "VerifC19Injective", {"fixed": "servers.web01.cpu.user", "len": "6"})]},
        {"pkg": "validate", "hdir": "validate", "opts": {"timeout_ms": 1800000, "budget_s": 3000, "solver": "z3-new-t"}, "specs": [spec("C19/fnv-injective/len=4", "VerifC19Injective", {"len": "4"}, tier="thorough")]},
        {"pkg": "validate", "hdir": "validate", "native_optional": True, "specs": [
            spec("C19/concurrent/2-callers/preemptions<=1", "VerifC19Concurrent", {"preemptions": "1"}),
            spec("C19/concurrent/2-callers/preemptions<=2", "VerifC19Concurrent", {"preemptions": "2"}),
            spec("C19/concurrent/2-callers/preemptions<=3", "VerifC19Concurrent", {"preemptions": "3"}, tier="thorough")]},
        {"pkg": "table", "hdir": "table", "specs": [spec("C19/table/2-points", "VerifC19Table", {"points": "xx"}), spec("C19/table/3-points", "VerifC19Table", {"points": "xxx"}, tier="thorough")]},
    ],
}

# per-property fragments (obl_Cxx.py) add further PROPS entries
import glob as _glob, os as _os
for _f in sorted(_glob.glob(_os.path.join(_os.path.dirname(_os.path.abspath(__file__)), "obl_*.py"))):
    exec(compile(open(_f).read(), _f, "exec"))
