# Obligations per property: groups of gosym runs (one process per group = one package load).

def spec(id, harness, params=None, tier="quick", **kw):
    d = {"id": id, "harness": harness, "tier": tier}
    if params:
        d["params"] = params
    d.update(kw)
    return d

C03_PATTERNS_QUICK = [
    "^ab?c", "^ab*", "^ab{0}c", r"^a\.*b", "^foo|bar", "^a(b|c)", "(?i)^abc", "^abc$", "a^b", "^abc", "abc", "^a.c", r"^a\.c",
    "^[ab]c", "^ab+", "^a|b", "^(ab)?c", r"^a\.?b", "^a-b_c", "^ab{2}", "^a$|b", ".*", "^$", "b$", r"^a\b", "^ab{1,2}", "(^a)|(^b)",
    r"^stats\.(a|b)[0-9]+", "^aB", "^a\\.b\\.", "^ab??c", "^ab*?c", "^a{0}b", "^a??b",
]

PROPS = {}

PROPS["C03"] = {
    "bounds": "names 0..6 ASCII bytes, literal options 0..1 symbolic bytes, regex/notRegex from an enumerated family of concrete patterns",
    "outside": "non-ASCII names under regex filters; patterns outside the family",
    "assumptions": ["input bytes < 0x80 when a regex is configured", "regexp.Match modelled as bounded NFA unrolling of the real syntax.Prog"],
    "groups": [
        {"pkg": "matcher", "hdir": "matcher",
         "specs": [spec("C03/match/literal", "VerifC03Literal")] +
                  [spec("C03/match/regex=" + p, "VerifC03Regex", {"regex": p, "notRegex": ""}) for p in C03_PATTERNS_QUICK] +
                  [spec("C03/match/notRegex=" + p, "VerifC03Regex", {"regex": "", "notRegex": p}) for p in C03_PATTERNS_QUICK],
         },
    ],
}
