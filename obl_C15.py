# C15 — consistent hashing agrees with Carbon and moves only the keys it must (exec'd by obligations.py)

def _c15_world(kind, harness, nd, r, hosts=None, tier="quick", insts=None):
    p = {"ndests": str(nd), "replicas": str(r)}
    if hosts:
        p["hosts"] = hosts
    if insts:
        p["insts"] = insts
    return spec("C15/%s/dests=%d/replicas=%d%s%s" % (kind, nd, r, "/hosts=" + hosts if hosts else "", "/insts=" + insts if insts else ""), harness, p, tier=tier)

PROPS["C15"] = {
    "bounds": ("ring position: keys of 0..4 symbolic bytes, arbitrary digest; replica key text: host 1..2 (thorough 1..3) and instance 0..2 symbolic bytes out of [.0-9A-Za-z], with and without port, 1..2 (thorough 1..3) replicas, "
               "two destinations with free host (1..2 bytes) and instance (0..1 bytes) texts, distinct as pairs (also when equal once concatenated), 1 replica (thorough 2); plus the production constructor (100 replicas) on two concrete destinations; lookup: every sorted ring of 1..6 entries (thorough 1..9) with free positions x every key position; "
               "order independence: 2 destinations x 1..2 replicas and 3 destinations x 1 replica, distinct or shared host names (shared host with 2 replicas and 3 destinations with two or all three on one host: thorough), instance absent or one free byte, all ring positions free including ties, "
               "every non-identity listing order; minimal disruption: 1..2 destinations + 1 added with 1 replica, 1 + 1 with 2 replicas (thorough 2 + 1 with 2 replicas and no instances, 1 + 1 with 2 replicas on one host, 3 + 1 with 1), then removal of any one destination, free positions, every key position; "
               "address split: every address of 0..6 arbitrary bytes; route level: real ConsistentHashing route (100 replicas, real MD5) over 2 concrete loopback destinations, Add of a third, DelDestination of any index, three concrete metric names; UpdateDestination of any one of 3 destinations to a new address (with / without instance) while the endpoint accepts the reconnect"),
    "outside": ("MD5 itself (uninterpreted: arbitrary digests, a superset of what real MD5 can produce); replica count 100 as a distribution property; more than 3-4 destinations / 2 replicas with free positions (3 destinations x 2 replicas in two listing orders = 6 free ring entries did not finish within 2000 s and is not registered); "
                "sort.Sort beyond 9 ring entries with free positions (insertion-sort regime of pdqsort; the 300-entry rings of the route-level run are concrete); host names or instances containing quotes, "
                "backslashes or colons (Python's repr would quote them differently); comparison with carbon-relay.py is by the transcribed definition of carbon.hashing.ConsistentHashRing "
                "(key text, 16-bit big-endian position, tuple order with None first, bisect_left with wrap-around), no Python is run"),
    "assumptions": ["crypto/md5.Sum is an uninterpreted function (same input => same digest) on symbolic inputs, and on every input in the order-independence and disruption obligations",
                    "the ring depends on positions only through their order and ties: counterexamples are replayed natively on strings whose real MD5 positions are order-isomorphic to the solver's (found by search)",
                    "route level: destinations are not connected (net.Dial refused), the line is observed at the per-destination drop counter conn_down_no_spool; one obligation with 2 destinations connected to the endpoint model (same host:port, instances a / b) and a third (no instance) added"],
    "groups": [
        {"pkg": "route", "hdir": "route", "specs": [
            spec("C15/ring-position", "VerifC15RingPosition"),
            spec("C15/replica-key-text", "VerifC15ReplicaKey"),
            spec("C15/replica-key-text/host<=3/replicas<=3", "VerifC15ReplicaKey", {"maxhost": "3", "maxreplicas": "3"}, tier="thorough"),
            spec("C15/two-nodes", "VerifC15TwoNodes"),
            spec("C15/two-nodes/replicas<=2", "VerifC15TwoNodes", {"maxreplicas": "2"}, tier="thorough"),
            spec("C15/replicas-100", "VerifC15Replicas100"),
            spec("C15/lookup/ring<=6", "VerifC15Lookup", {"maxring": "6"}),
            spec("C15/lookup/ring<=9", "VerifC15Lookup", {"maxring": "9"}, tier="thorough"),
            spec("C15/route/key=foo.bar", "VerifC15Route", {"key": "foo.bar"}),
            spec("C15/route/key=a", "VerifC15Route", {"key": "a"}),
            spec("C15/route/key=servers.web01.cpu.user", "VerifC15Route", {"key": "servers.web01.cpu.user"}),
            spec("C15/route-update-addr/key=foo.bar/inst=z", "VerifC15RouteUpdate", {"key": "foo.bar", "inst": "z"}),
            spec("C15/route-update-addr/key=a/no-inst", "VerifC15RouteUpdate", {"key": "a"}),
            spec("C15/route-connected-destinations", "VerifC15RouteConnected"),
        ]},
        {"pkg": "route", "hdir": "route", "specs": [
            _c15_world("order", "VerifC15OrderIndependent", 2, 2),
        ]},
        {"pkg": "route", "hdir": "route", "specs": [
            _c15_world("order", "VerifC15OrderIndependent", 2, 1),
            _c15_world("order", "VerifC15OrderIndependent", 2, 1, "aa"),
            _c15_world("disruption", "VerifC15Disruption", 1, 1),
            _c15_world("disruption", "VerifC15Disruption", 1, 1, "aa"),
            _c15_world("order", "VerifC15OrderIndependent", 3, 1),
            _c15_world("disruption", "VerifC15Disruption", 2, 1),
            _c15_world("disruption", "VerifC15Disruption", 2, 1, "aab"),
            _c15_world("order", "VerifC15OrderIndependent", 3, 1, "aab", tier="thorough"),
            _c15_world("order", "VerifC15OrderIndependent", 3, 1, "aaa", tier="thorough"),
            _c15_world("disruption", "VerifC15Disruption", 3, 1, tier="thorough"),
        ]},
        {"pkg": "route", "hdir": "route", "specs": [
            _c15_world("disruption", "VerifC15Disruption", 1, 2),
            _c15_world("disruption", "VerifC15Disruption", 1, 2, "aa", tier="thorough"),
        ]},
        {"pkg": "route", "hdir": "route", "specs": [
            _c15_world("order", "VerifC15OrderIndependent", 2, 2, "aa", tier="thorough"),
            _c15_world("disruption", "VerifC15Disruption", 2, 2, tier="thorough", insts="000"),
        ]},
        {"pkg": "destination", "hdir": "destination", "specs": [spec("C15/addr-split", "VerifC15AddrSplit")]},
    ],
}
