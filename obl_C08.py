PROPS["C08"] = {
    "bounds": "histories of K<=3 (quick) / K<=4 (thorough) operations over {put(m), get} with messages of 0..2 symbolic bytes, symbolic maxBytesPerFile in [1,40] and syncEvery in [1,100] (partitioned by the solver into the classes the code distinguishes), crash right after any single filesystem mutation of the history or after the whole history, then reopen and drain",
    "outside": "power-loss semantics (un-fsynced data disappearing), torn writes inside one write(2), Empty()/Delete(), the sync ticker (syncTimeout never fires), histories longer than K, corrupted files not produced by the queue itself; metadata text is produced/parsed by the host fmt on concrete numbers",
    "assumptions": ["in-memory file-system model with process-crash semantics: every completed create/write/rename/remove is durable", "the crash-point hook calls added to diskqueue.go (tag verif) follow every mutation: checked by the engine on every path (a mutation without a hook in between makes the path inconclusive)"],
    "groups": [
        {"pkg": "nsqd", "hdir": "nsqd", "specs": [
            spec("C08/crash/K=3", "VerifC08Crash", {"ops": "xxx"}),
            spec("C08/crash/K=4", "VerifC08Crash", {"ops": "xxxx"}, tier="thorough")],
         "opts": {"thorough": {"budget_s": 7000}}},
    ],
}
PROPS["C09"] = {
    "bounds": "histories of K<=3 (quick) / K<=5 (thorough) operations over {put(m), get, close+reopen}, messages of 0..2 symbolic bytes (records of 4..6 bytes against symbolic maxBytesPerFile in [1,40]: smaller than, equal to and larger than a segment), symbolic syncEvery in [1,100]; one concrete-length boundary run around the reader's 4096-byte buffer (a message of 4089..4092 bytes so that the next record's length prefix starts 3..0 bytes before the refill point, then two messages of 1..2 symbolic bytes, with and without close+reopen); 2..3 messages, a consumer goroutine receiving while Close runs, every interleaving with at most 2 (thorough 3) preemptions at lock / channel operations, then reopen and drain)",
    "outside": "messages longer than 2 bytes other than the boundary run, histories longer than K, the sync ticker, Empty()/Delete()",
    "assumptions": ["in-memory file-system model; the consumer observes the queue at quiescence (all goroutines blocked)"],
    "groups": [
        {"pkg": "nsqd", "hdir": "nsqd", "specs": [
            spec("C09/fifo/K=3", "VerifC09Fifo", {"ops": "xxx"}),
            spec("C09/fifo/put,put,get+2", "VerifC09Fifo", {"prefix": "ppg", "ops": "xx"}),
            spec("C09/fifo/put,put,reopen+1", "VerifC09Fifo", {"prefix": "ppr", "ops": "x"}),
            spec("C09/fifo/read-buffer-boundary", "VerifC09ReadBuffer"),
            spec("C09/fifo/K=4", "VerifC09Fifo", {"ops": "xxxx"}, tier="thorough"),
            spec("C09/fifo/K=5", "VerifC09Fifo", {"ops": "xxxxx"}, tier="thorough")],
         "opts": {"thorough": {"budget_s": 7000}}},
        # a consumer goroutine receiving while the queue is closed: the interleaving is a decision variable
        {"pkg": "nsqd", "hdir": "nsqd", "native_optional": True, "specs": [
            spec("C09/fifo/close-while-consuming/preemptions<=2", "VerifC09CloseWhileConsuming", {"preemptions": "2"}),
            spec("C09/fifo/close-while-consuming/preemptions<=3", "VerifC09CloseWhileConsuming", {"preemptions": "3"}, tier="thorough")]},
    ],
}
HOOK_COMMITS.append("2afd1d6")
