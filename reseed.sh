#!/bin/bash
# reseed.sh <property id> [suffix]: rebuilds the scratch worktree /tmp/mut-<id><suffix> of a kept seeded change
# from /verif/seeded/<id><suffix>/ (patch.diff, demo_test.go, meta.json) so that seedtest.sh can be run again.
set -eu
ID=$1; SFX=${2:-}
S=/verif/seeded/$ID$SFX
M=/tmp/mut-$ID$SFX
git -C /repo worktree remove --force $M 2>/dev/null || true
git -C /repo worktree add -q $M HEAD
(cd $M && git apply $S/patch.diff)
DEMO=$(python3 -c "import json;print(json.load(open('$S/meta.json'))['demo_file'])")
cp $S/demo_test.go $M/$DEMO
mkdir -p $M/.mutant
cp $S/patch.diff $M/.mutant/patch.diff
cp $S/demo_test.go $M/.mutant/demo_test.go
[ -f $S/README.md ] && cp $S/README.md $M/.mutant/README.md
echo "$M ready"
