# C10 — aggregations emit exactly one correct point per bucket, once, in order.
# Harness A (VerifC10Hist): bounded histories through the real run() goroutine + ghost model.
# Harness B (VerifC10Func): the ten functions against an independent specification.
# Harness C (VerifC10Step): one-step induction (invariant + ghost relation) from an arbitrary pre-state.

_C10_FUNS = ["avg", "count", "delta", "derive", "last", "max", "min", "stdev", "sum", "percentiles"]


def _c10_hist(id, tier="quick", **kw):
    p = {"fun": "sum", "events": "xx", "names": "xx", "outfmt": "$1", "cache": "0", "intervals": "10", "waits": "sym",
         "small": "0", "narrow": "0", "first": ""}
    p.update(kw)
    return spec("C10/hist/" + id, "VerifC10Hist", p, tier=tier)


def _c10_func(fun, tier="quick", **kw):
    p = {"fun": fun, "maxn": "xxx", "small": "0", "extra": "0"}
    p.update(kw)
    return spec("C10/func/" + fun + ("/characterisation" if p["extra"] == "1" else ""), "VerifC10Func", p, tier=tier)


_C10_HIST_OPTS = {"solver": "z3-new-t", "timeout_ms": 30000, "thorough": {"budget_s": 6000}}
_C10_FUNC_OPTS = {"solver": "cvc5", "timeout_ms": 600000}

PROPS["C10"] = {
    "bounds": "histories from the empty state of exactly 3 events (all shorter ones are their prefixes; every assertion is checked after each event) over {tick, point a1, point b1} (quick: all except those starting b1,a1 or b1,b1, which mirror a1,b1 / a1,a1 and run in the thorough tier) with regex ^(a|b)[0-9]$ and outFmt $1, function sum, Interval 10, symbolic Wait < 2^16, symbolic uint32 timestamps, unconstrained float64 values, symbolic non-decreasing clock (uint32 start, 16-bit advances, now >= Wait), tick instant anywhere between the previous tick instant and the clock; histories of 2 events for each of the ten functions, for 3-4 names incl. two names sharing a key and a non-matching name with the cache on, for outFmt without capture group, derive with two output names in play over the pinned 4-event histories (point a, point b, point b, tick) and (b, b, a, tick) with 16-bit timestamps, for Interval symbolic in [1,2^16) and Interval in {1,60}; thorough: 3 events for every function, with symbolic Interval, with 3 names + cache, and 4 events over {tick, point a1}; one-step induction: arbitrary pre-state satisfying the invariant (tsList strictly ascending = open first-level buckets, buckets holding a processor start at or above the previous cutoff+1 <= now-Wait+1) with <= 2 (thorough 3) first-level buckets x key subsets of {a,b}, arbitrary bucket starts and accumulated sums, one arbitrary event, function sum, Interval 10 (thorough symbolic): covers histories of any length with at most that many simultaneously open first-level buckets; functions in isolation: 1..3 values per bucket, finite float64 of magnitude <= 1e300 with symbolic uint32 timestamps",
    "outside": "NaN/Inf values inside the functions (harness B; harness A passes unconstrained float64 values, NaN excluded for percentiles only); more than 3 values per bucket and more than 3 (4) events; %f rendering of the value (the engine compares the float64 handed to fmt.Sprintf, the native replay compares to 1e-6); the real wall-clock ticker clock.AlignedTick; clocks that go backwards and now < Wait (unsigned wrap-around of now-Wait); Interval 0 (C14); the snapshot and shutdown branches of run(); math.Pow(x,2) is modelled as x*x",
    "assumptions": ["non-decreasing harness clock, now >= Wait", "a late point (bucket start <= now-Wait) for a bucket that was not yet emitted may either contribute to the still open bucket or be counted as too old - exactly one of the two (DESIGN.md ghost model)", "derive emits no line for a bucket with fewer than two distinct timestamps (the property text says one line per bucket; the derivative is undefined there - flagged, not counted as a violation)", "the timestamp range tracker (statistics only) has already seen both extreme timestamps, so its comparisons do not fork"],
    "groups": [
        # 3 events, split by the first two events so that the parts run in parallel; histories starting
        # b1,a1 / b1,b1 mirror a1,b1 / a1,a1 (keys are opaque map keys to the aggregator): thorough tier
    ] + [
        {"pkg": "aggregator", "hdir": "aggregator", "opts": _C10_HIST_OPTS,
         "specs": [_c10_hist("sum/3ev/first=%s" % n, t, events="xxx", first=f) for f, n, t in part] +
                  [_c10_hist("%s/3ev/first=%s" % (fun, n), "thorough", events="xxx", first=f, fun=fun)
                   for fun in ["max", "derive", "percentiles"] for f, n, t in part] + extra}
        for part, extra in [([("1,1", "a1,a1", "quick")], []), ([("1,2", "a1,b1", "quick")], []),
                            ([("2,1", "b1,a1", "thorough")], []), ([("2,2", "b1,b1", "thorough")], []),
                            ([("0", "tick", "quick"), ("1,0", "a1,tick", "quick"), ("2,0", "b1,tick", "quick")],
                             [_c10_hist(f + "/2ev", fun=f) for f in _C10_FUNS[:5]])]
    ] + [
        # 2 events, every function
        {"pkg": "aggregator", "hdir": "aggregator", "opts": _C10_HIST_OPTS,
         "specs": [_c10_hist(f + "/3ev", "thorough", fun=f, events="xxx") for f in ["avg", "count", "delta"]]},
        {"pkg": "aggregator", "hdir": "aggregator", "opts": _C10_HIST_OPTS,
         "specs": [_c10_hist(f + "/2ev", fun=f) for f in _C10_FUNS[5:]] +
                  [_c10_hist(f + "/3ev", "thorough", fun=f, events="xxx") for f in ["last", "min", "stdev"]]},
        # 2 events, name / cache / format / interval variants
        {"pkg": "aggregator", "hdir": "aggregator", "opts": _C10_HIST_OPTS,
         "specs": [_c10_hist("percentiles/2ev/3names/cache/I=60", fun="percentiles", names="xxx", cache="1", intervals="60"),
                   _c10_hist("derive/2ev/no-capture-group", fun="derive", outfmt="out"),
                   # two output names in one bucket, one of them without a derivative (one point), then a tick
                   _c10_hist("derive/4ev/a,b,b,tick", fun="derive", events="xxxx", first="1,2,2,0", narrow="1"),
                   _c10_hist("derive/4ev/b,b,a,tick", fun="derive", events="xxxx", first="2,2,1,0", narrow="1"),
                   _c10_hist("sum/2ev/4names/cache", names="xxxx", cache="1"),
                   _c10_hist("sum/2ev/I=symbolic", intervals="sym"),
                   _c10_hist("sum/2ev/I=1,60", intervals="1,60"),
                   _c10_hist("sum/3ev/I=symbolic/16-bit-clock", "thorough", events="xxx", intervals="sym", narrow="1"),
                   _c10_hist("sum/3ev/3names/cache", "thorough", events="xxx", names="xxx", cache="1"),
                   _c10_hist("sum/4ev/1name", "thorough", events="xxxx", names="x")]},
        # one-step induction from an arbitrary pre-state
        {"pkg": "aggregator", "hdir": "aggregator", "opts": _C10_HIST_OPTS,
         "specs": [spec("C10/step/open<=2", "VerifC10Step", {"intervals": "10", "waits": "sym", "maxopen": "xx"}),
                   spec("C10/step/open<=3", "VerifC10Step", {"intervals": "10", "waits": "sym", "maxopen": "xxx"}, tier="thorough"),
                   spec("C10/step/open<=2/I=symbolic", "VerifC10Step", {"intervals": "sym", "waits": "sym", "maxopen": "xx"}, tier="thorough")]},
        # the functions in isolation
        {"pkg": "aggregator", "hdir": "aggregator", "opts": _C10_FUNC_OPTS,
         "specs": [_c10_func(f) for f in _C10_FUNS if f != "stdev"] + [_c10_func("stdev", extra="1"), _c10_func("percentiles", extra="1")]},
        {"pkg": "aggregator", "hdir": "aggregator", "specs": [spec("C10/output-name", "VerifC10OutputName")]},
    ],
}
