# C16 — re-encoding a line for pickle, grafana.net or Kafka preserves the datapoint (exec'd by obligations.py)

def _c16_pm(form, pats, tier="quick", maxname=None):
    p = {}
    for i, x in enumerate(pats):
        p["p%d" % i] = x
    if form == "free":
        p["maxname"] = str(maxname or 3)
        fid = "free<=%s" % p["maxname"]
    else:
        p["maxtags"] = form
        fid = "tags<=%s" % form
    return spec("C16/record/%s/rules=%s" % (fid, ",".join(pats + [".*"])), "VerifC16ParseMetric", p, tier=tier)

PROPS["C16"] = {
    "bounds": ("pickle: one line = name of 1..2 (thorough 1..3) printable ASCII bytes, value token = 1..2 free digits or one of 11 concrete spellings (valid and invalid, incl. NaN, Inf, hex, out of range), timestamp token = 1..3 free printable bytes, "
               "or the prefix 429496 + 1..4 free digits (around 2^32), or the prefix 15000000 + 1..3 free bytes; followed by one fixed good line; three Pickle calls on two datapoints with free names of 1..2 / 1..3 bytes, every returned message compared again after the later calls (sync.Pool modelled as recycling: Get returns the object Put last); names of 70..5000 bytes (6 lengths, beyond every plausible initial buffer size); ParseDataPoint alone on 1..4 fields of 1..2 bytes; "
               "record (parseMetric): first token of 1..3 free printable bytes (thorough 1..4) where every ';' starts a tag, or a 1..2 byte name with 0..2 tags of three free bytes each, value one free digit, timestamp 1..2 free bytes (1 with structured tags), "
               "free organisation id 0..2^31, schema lists of 1..3 rules over concrete patterns (anchored with ^ and $, unanchored, matching tag text) closed by '.*', first retentions 10s/20s/30s/60s; "
               "schema file: 2..3 sections (thorough 4), each with priority absent or 1..2 free digits, old ('60:1440') and new ('10s:1d', '5m:1y', '1h:7d') retention syntax"),
    "outside": ("what og-rek emits for the structure and whether Python's unpickler decodes it (the encoder is an opaque deterministic function of the structure in the engine; natively both sides of the comparison run the real encoder); "
                "the msgp encoding itself (the expected message is the same MarshalMsg applied to the record the harness derives from the line), snappy and the Kafka wire protocol (the producer is an engine model that records message values at SendMessages time; batches of 2..3 lines over 4 concrete names in 4 orders, 0..1 failed sends); value spellings under parseMetric beyond one digit (the ParseFloat call is the same as in ParseDataPoint); names longer than the bound, non-ASCII bytes; "
                "priorities of more than 2 digits or negative; MetricData.Validate is real code (not a stub), including its dot normalisation of the name (EatDots), which the oracle applies too"),
    "assumptions": ["(*og-rek.Encoder).Encode: payload bytes = uninterpreted functions of (shape, leaf values) with og-rek's kind collapsing (all ints -> int64, strings/[]byte -> bytes, Tuple vs list); expected payload = the same encoder applied by the harness to [(name, (uint32 ts, float64 val))]",
                    "strconv.ParseFloat: native on concrete tokens, exact on free digit strings",
                    "the series name as Graphite presents it: name when untagged, name;tag1;tag2 with sorted tags otherwise (DESIGN.md appendix D)",
                    "regexp.MatchString = bounded NFA unrolling of the real syntax.Prog, ASCII input; fmt.Fprintln to os.Stderr is discarded",
                    "in-memory file system for the schema file (natively a real temporary file)",
                    "Kafka: sarama.NewClient / NewSyncProducerFromClient are engine models (2 partitions; SendMessages records the bytes of every message value as they are during the call, optionally failing the first call); the real KafkaMdm.run, parseMetric, SetId, MarshalMsg and the partitioner run on them; engine-only (no native replay)"],
    "groups": [
        {"pkg": "destination", "hdir": "destination", "specs": [
            spec("C16/pickle/line", "VerifC16Pickle", {"maxname": "2"}),
            spec("C16/pickle/line/name<=3", "VerifC16Pickle", {"maxname": "3"}, tier="thorough"),
            spec("C16/pickle/ts-around-2^32", "VerifC16Pickle", {"tsprefix": "429496", "tsdigits": "1", "maxts": "4", "maxname": "1"}),
            spec("C16/pickle/ts-long", "VerifC16Pickle", {"tsprefix": "15000000", "maxts": "3", "maxname": "1"}),
            spec("C16/pickle/parse-datapoint", "VerifC16ParseDataPoint"),
            spec("C16/pickle/messages-independent", "VerifC16PickleIndependent"),
        ] + [spec("C16/pickle/long-name=%d" % k, "VerifC16Pickle", {"maxname": "1", "longname": str(k), "maxts": "1", "tsprefix": "150000000"}) for k in (70, 150, 300, 600, 1200, 5000)] + [
        ]},
        {"pkg": "route", "hdir": "route", "specs": [
            _c16_pm("free", []),
            _c16_pm("free", ["^a$", "b"]),
            _c16_pm("free", ["a", "^b"]),
            _c16_pm("free", [], tier="thorough", maxname=4),
            _c16_pm("free", ["b$", "^a", "c"], tier="thorough", maxname=4),
        ]},
        {"pkg": "route", "hdir": "route", "specs": [
            _c16_pm("2", []),
            _c16_pm("1", ["^a$", "=b$"]),
            _c16_pm("1", [";k=", "^a;"]),
            _c16_pm("2", ["^a$", "=b$"]),
            _c16_pm("2", [";k=", "^a"], tier="thorough"),
        ]},
        # the Kafka route's real run loop against the engine's producer model (engine only)
        {"pkg": "route", "hdir": "route", "no_native": True, "specs": [spec("C16/kafka/batch", "VerifC16Kafka")]},
        {"pkg": "persister", "hdir": "persister", "specs": [
            spec("C16/schemas-order/sections=2", "VerifC16SchemaOrder", {"sections": "2"}),
            spec("C16/schemas-order/sections=3", "VerifC16SchemaOrder", {"sections": "3"}),
            spec("C16/schemas-order/sections=4", "VerifC16SchemaOrder", {"sections": "4"}, tier="thorough"),
        ]},
    ],
}
