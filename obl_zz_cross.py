# Cross-registrations (exec'd last by obligations.py): a property's own check also runs the cheapest obligations of
# the neighbouring layers its statement depends on. Reason (DESIGN.md 7.4): seeded changes C01b, C01c, C02b and
# C03c broke a property through a neighbouring layer and were caught only by the neighbour's check.

_CROSS_PATTERNS = ["^a[Bb]c", "^ab?c", "^foo|bar", "(?i)^abc"]
PROPS["C01"]["groups"] += [
    # route / destination filters decide which routes "match": the filter semantics of C03 on 4 pattern shapes
    {"pkg": "matcher", "hdir": "matcher",
     "specs": [spec("C01/filter/literal", "VerifC03Literal")] +
              [spec("C01/filter/regex=" + p, "VerifC03Regex", {"regex": p, "notRegex": "", "maxlen": "xxxx"}) for p in _CROSS_PATTERNS] +
              [spec("C01/filter/notRegex=" + p, "VerifC03Regex", {"regex": "", "notRegex": p, "maxlen": "xxxx"}) for p in _CROSS_PATTERNS]},
    # a metric reaches the routes unless a drop-raw aggregation really consumed it (C11's obligation)
    {"pkg": "table", "hdir": "table", "specs": [spec("C01/dropraw", "VerifC11DropRaw", {"regex": "^a(b|c)", "notRegex": "c$"}),
                                                 spec("C01/table-dest-filter/name-only", "VerifC03TableDestName")]},
    # which destinations of a route "match" is decided on the metric name (C03's obligation)
    {"pkg": "route", "hdir": "route", "specs": [spec("C01/dest-filter/name-only", "VerifC03DestName")]},
]
PROPS["C01"]["groups"] += [
    # "exactly once to each matching route and to no other" while the table changes at runtime: a line is processed against
    # ONE table (C18's obligations: one snapshot load per dispatch; dispatch against two concurrent admin changes)
    {"pkg": "table", "hdir": "table", "specs": [spec("C01/one-table-per-line", "VerifC18Readers"),
                                                 # ... and the table a dispatcher is walking does not change under it (C18's snapshot obligation)
                                                 spec("C01/table-held-by-a-dispatcher", "VerifC18Table")]},
    {"pkg": "table", "hdir": "table", "native_optional": True, "specs": [
        spec("C01/one-table-per-line/dispatch-vs-addBlacklist+delRoute/preemptions<=2", "VerifC18Concurrent", {"kind": "blacklist", "preemptions": "2"})]},
]
PROPS["C01"]["bounds"] += "; plus (shared with C18) one snapshot load per dispatch, held snapshots unchanged by 1..2 admin operations on tables of 1..3 entries, and one dispatch against an admin goroutine making two changes, at most 2 preemptions"
PROPS["C01"]["bounds"] += "; plus (shared with C03 / C11) filter semantics on 4 regex shapes as regex and notRegex with names 0..4 bytes, and one drop-raw aggregation scenario"

PROPS["C02"]["groups"] += [
    # what is validated must be the line as received: the plain input hands over whole lines up to the 64 KiB limit (C12's obligation)
    {"pkg": "input", "hdir": "input", "specs": [spec("C02/input/long-line-handed-over-whole", "VerifC12Limits", {"path": "tcp"}),
                                                 spec("C02/input/udp-receive-loop", "VerifC12UDPLoop", {"L": "3"})]},
]
PROPS["C02"]["bounds"] += "; plus (shared with C12) the plain TCP input on lines around the 65535-byte limit and the UDP receive loop on datagrams of 0..3 bytes"

PROPS["C03"]["groups"] += [
    # the configured blacklist entries become filters with exactly the configured option (C20's obligation)
    {"pkg": "cfg", "hdir": "cfg", "overlays": _C20_OVERLAYS, "specs": [spec("C03/config/blacklist", "VerifC20Blacklist")]},
]
PROPS["C03"]["bounds"] += "; plus (shared with C20) blacklist sections of the TOML configuration"

PROPS["C05"]["groups"] += [
    # pickle mode: the stream is a sequence of length-prefixed pickles, one per line, whatever the line length (C16's obligations)
    {"pkg": "destination", "hdir": "destination", "specs":
        [spec("C05/pickle-stream/name<=2", "VerifC16Pickle", {"maxname": "2", "maxts": "1", "tsprefix": "150000000"})] +
        [spec("C05/pickle-stream/long-name=%d" % k, "VerifC16Pickle", {"maxname": "1", "longname": str(k), "maxts": "1", "tsprefix": "150000000"}) for k in (150, 1200, 5000)]},
]
PROPS["C05"]["bounds"] += "; pickle mode (shared with C16): one free line + one fixed line through Conn.Write, names of 1..2 free bytes and of 150 / 1200 / 5000 bytes"
