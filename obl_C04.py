PROPS["C04"] = {
    "bounds": "names 1..3 printable bytes, value and timestamp one symbolic digit each, separators symbolic in {space, tab} (thorough: runs of 1..2 and optional leading whitespace), 0..2 literal rewriters (old 1 symbolic byte, new 0..1, not 0..1, max in -1..2); the same name before and after one runtime change of the rewriter list (rule deleted / added; names of 2 bytes over {a,b,c,d}); every pair out of 13 concrete numeric spellings (exponent, hex float, sign, leading zeros, fraction) as value and timestamp token behind a free name of 1..2 bytes; isolation: two routes, buffer overwritten with symbolic bytes after the hand-off",
    "outside": "the regexp library's ReplaceAll/${n} expansion itself (the reference calls the same library: what is checked for /regex/ rules and /regex/ not-clauses, on 8 concrete rules with names of 1..3 bytes, is which clause is applied to what), multi-byte old patterns, numeric spellings (tokens are opaque bytes, which is the claim: byte for byte), the scanner-buffer reuse of the TCP input (C12)",
    "assumptions": ["reference semantics of a literal rewriter written in the harness: skip if `not` occurs, replace first max non-overlapping occurrences left to right"],
    "groups": [
        {"pkg": "table", "hdir": "table", "specs": [
            spec("C04/content/1rw", "VerifC04Content", {"nrw": "x", "ws": "1"}),
            spec("C04/content/0rw", "VerifC04Content", {"nrw": "", "ws": "1"}),
        ] + [spec("C04/rules/rule=%d" % k, "VerifC04Rules", {"rule": str(k)}) for k in range(8)] + [
            spec("C04/after-change", "VerifC04AfterChange"),
            spec("C04/tokens/numeric-spellings", "VerifC04Tokens"),
            spec("C04/isolation", "VerifC04Isolation"),
            spec("C04/isolation/aggregation", "VerifC04IsolationAgg"),
            spec("C04/content/ws", "VerifC04Content", {"nrw": "", "ws": "2"}, tier="thorough"),
            spec("C04/content/2rw", "VerifC04Content", {"nrw": "xx", "ws": "1"}, tier="thorough")]},
    ],
}
