PROPS["C06"] = {
    "bounds": "real relay()/updateConn/NewConn/HandleData/checkEOF goroutines over the TCP endpoint model; endpoint absent / healthy / accepting but never reading / absent at first and healthy after the next reconnect tick; with spooling on: 3..5 lines spooled while absent, then the endpoint returns as a black hole (unspooling fills queue and buffers), 2..3 further lines, optionally the black hole closes and 2 more lines; an address change (modDest addr=) while the old connection's writer is stuck in a socket write, then further hand-offs; 2..4 lines of 1..2 symbolic bytes, connbuf 1..2, iobuf 4, optional reconnect tick between lines; all select-level schedules (run-to-block scheduling, forks over ready select cases)",
    "outside": "wall-clock bounds and the Go scheduler's fairness (the no-stall claim is checked as: every hand-off on the unbuffered In channel completes, a stuck relay would be reported as deadlock); kernel/TCP behaviour beyond the model (dial refused, write ok/blocked/broken, read EOF on peer close); endpoint closing mid-stream without spool (transition, see C07); throttled endpoints (only the two extremes healthy/never-reading)",
    "assumptions": ["TCP endpoint model in the engine (engine/intrinsics_net.go)", "goroutines pre-empt only at blocking operations"],
    "groups": [
        {"pkg": "destination", "hdir": "destination", "native_optional": True, "specs": [spec("C06/steady", "VerifC06Steady")]},
        {"pkg": "destination", "hdir": "destination", "native_optional": True, "specs": [spec("C06/spool-then-black-hole", "VerifC06SpoolBlackhole")]},
        {"pkg": "destination", "hdir": "destination", "native_optional": True, "specs": [spec("C06/address-change-while-old-connection-is-stalled", "VerifC05AddrUpdate")]},
        {"pkg": "destination", "hdir": "destination", "native_optional": True, "specs": [spec("C06/steady/healthy/2-lines/preemptions<=1", "VerifC06Steady", {"preemptions": "1", "endpoint": "1", "nlines": "2", "connbuf": "1"}, tier="thorough")]},
        {"pkg": "destination", "hdir": "destination", "native_optional": True, "specs": [spec("C06/steady/healthy/3-lines/preemptions<=1", "VerifC06Steady", {"preemptions": "1", "endpoint": "1", "nlines": "3", "connbuf": "1"}, tier="thorough")]},
        {"pkg": "destination", "hdir": "destination", "native_optional": True, "specs": [spec("C06/steady/healthy/2-lines/preemptions<=2", "VerifC06Steady", {"preemptions": "2", "endpoint": "1", "nlines": "2", "connbuf": "1"}, tier="thorough")]},
        {"pkg": "destination", "hdir": "destination", "native_optional": True, "specs": [spec("C06/steady/absent/2-lines/preemptions<=2", "VerifC06Steady", {"preemptions": "2", "endpoint": "0", "nlines": "2", "connbuf": "1"}, tier="thorough")]},
        {"pkg": "destination", "hdir": "destination", "native_optional": True, "specs": [spec("C06/steady/stalled-then-closed/2-lines/preemptions<=1", "VerifC06Steady", {"preemptions": "1", "endpoint": "3", "nlines": "2", "connbuf": "1"}, tier="thorough")]},
    ],
}
PROPS["C07"] = {
    "bounds": "composed scenario on the real relay + Conn + keepSafe + Spool + DiskQueue (file-system model) + endpoint model, connection queue of 4 lines, and of 1 line with the endpoint stalling first and 3 lines following (queue full when the outage hits; thorough: queue of 1 without that restriction), and with the lines handed off during the outage longer (15 bytes) than a whole spool segment file (12 bytes): 0..1 lines before the first connect, 0..2 while connected, optional flush, outage by peer close, 0..2 lines during the outage, reconnect, 0..1 lines after; thorough: keepSafe's expiry ticker firing once while connected, and two consecutive outage / recovery cycles with 0..1 lines per phase; every line = tag + 1 symbolic byte; keepSafe: histories of 1..5 Add/expiry-tick events",
    "outside": "the timing premise (failure detected while the lines are still within keepSafe's >=10 s window; the keepSafe expiry ticker does not fire in the composed scenario); more than two outages; all goroutine interleavings (run-to-block scheduling with forks over ready select cases only); kernel acknowledging bytes it later loses",
    "assumptions": ["TCP endpoint model and in-memory file-system model", "violations of the composed scenario are schedule-dependent and reported without native replay (structural class)"],
    "groups": [
        {"pkg": "destination", "hdir": "destination", "native_optional": True, "specs": [spec("C07/outage", "VerifC07Outage"), spec("C07/keepsafe", "VerifC07KeepSafe")]},
        {"pkg": "destination", "hdir": "destination", "native_optional": True, "specs": [spec("C07/outage/stalled-endpoint-queue-of-1-full", "VerifC07Outage", {"connbuf": "1", "maxlines": "3", "stalled": "1"})]},
        {"pkg": "destination", "hdir": "destination", "native_optional": True, "specs": [spec("C07/outage/lines-longer-than-a-spool-segment", "VerifC07Outage", {"long-lines-during-outage": "1", "maxlines": "1"})]},
        {"pkg": "destination", "hdir": "destination", "native_optional": True, "specs": [spec("C07/outage/queue-of-1/lines<=3", "VerifC07Outage", {"connbuf": "1", "maxlines": "3"}, tier="thorough")]},
        {"pkg": "destination", "hdir": "destination", "native_optional": True, "specs": [spec("C07/outage/keepsafe-rotation", "VerifC07Outage", {"rotate": "1"}, tier="thorough")]},
        {"pkg": "destination", "hdir": "destination", "native_optional": True, "specs": [spec("C07/outage/2-outages/lines<=1", "VerifC07Outage", {"outages": "2", "maxlines": "1"}, tier="thorough")]},
    ],
}
