PROPS["C14"] = {
    "bounds": "accepted-parameters-then-first-use: aggregation interval/wait over all 16-bit values with and without regex, and over all 64-bit values (seconds that wrap around in time.Duration); destination flush/reconnect/spool-sync periods over all 16-bit signed millisecond values, connbuf/iobuf/spoolbuf/maxBytesPerFile/syncEvery over 16-bit signed values (sizes capped at 16 to bound allocations), one free option at a time, spool and pickle on/off, then two lines through a connected destination; consistent-hashing route with 1..2 destinations emptied, then Dispatch; grafanaNet route through the real constructor with concurrency / bufSize / flushMaxNum over all 16-bit signed values (one free at a time, sizes capped at 3 workers / 8 slots), then two metrics and Shutdown; table with bad-metrics max age 0; pickle frames (1..2 frames, second possibly larger/malformed, one arbitrary cut) and plain-text streams of <= 4 arbitrary bytes through the real input handlers (harnesses shared with C13/C12); admin port: the connection handler (telnet.handleApiRequest) on one read of 0..3 arbitrary ASCII bytes or a read filling the whole 1024-byte buffer, optionally a second command, end of stream; admin commands: `view` (Table.Print) on the empty table and on tables with one entry of every kind (option texts empty / 1 byte / wider than every column, 0..2 destinations, one optionally deleted, three route kinds); the rewriter constructor on free `old` / `not` of 0..2 bytes, 6 commands over a family of 17 corner words through the real lexer, and the command parser over token sequences of 1..4 tokens (first token any of 10 command tokens resp. the 3 back-end route commands; every further token a free keyword / option / separator / function token, a number of 1..2 free digits, one of 12 words, or a quoted string; sequences of 5 tokens did not finish within 1200 s and are not claimed); every other harness of every property also reports any reachable panic / exit as a violation (arbitrary lines through Table.Dispatch: C02; pickle item shapes: C13)",
    "outside_note": "the token-level model replaces toki's Next/Peek; the harness's native twin renders the tokens as text for the real lexer (word values are chosen so that the lexer yields exactly these tokens)",
    "outside": "lexing of free command text by toki (the parser is explored over token sequences and over a family of concrete words through the real lexer) and TOML decoding by BurntSushi: parameters enter at the constructors that both syntaxes call; the web UI; kafka/pubsub/cloudwatch back ends; out-of-memory and goroutine leaks",
    "assumptions": ["a parameter that cannot work must be refused with an error by the constructor (aggregator.New, destination.New, table.NewTableConfig) or be harmless at first use"],
    "groups": [
        {"pkg": "aggregator", "hdir": "aggregator", "specs": [
            spec("C14/params/aggregation/regex", "VerifC14AggParams", {"regex": "^a"}, allow_no_assert=True),
            spec("C14/params/aggregation/interval-wait-64bit", "VerifC14AggParams", {"regex": "^a", "wide": "1"}, allow_no_assert=True),
        ] + [spec("C14/params/aggregation/regex=" + rx, "VerifC14AggParams", {"regex": rx}, allow_no_assert=True, allow_no_ok=True)
             for rx in (".*", "^.*", "(.*)", "^", "$", "a|", "()", "[", "a**")] + [
            spec("C14/traffic/aggregation/sum", "VerifC14AggTraffic", {"fun": "sum"}, allow_no_assert=True),
            spec("C14/traffic/aggregation/percentiles", "VerifC14AggTraffic", {"fun": "percentiles"}, allow_no_assert=True, tier="thorough"),
            spec("C14/params/aggregation/noregex", "VerifC14AggParams", {"regex": ""}, allow_no_assert=True, allow_no_ok=True)]},
        {"pkg": "destination", "hdir": "destination", "no_native": True, "specs": [spec("C14/params/destination", "VerifC14DestParams", allow_no_assert=True)]},
        {"pkg": "imperatives", "hdir": "imperatives", "overlays": {"destination": "destination/c20.go", "route": "route/c20.go", "pkg/mt-conf": "mtconf/c20.go"}, "specs": [
            spec("C14/admin/%s" % c, "VerifC14AdminWords", {"cmd": c}, allow_no_ok=True) for c in ("addRewriter", "addBlack", "addBlackRegex", "delRoute", "modDest", "modRoute")]},
        # the parser explored over token sequences (engine: toki Next/Peek hand out the harness's token stream; natively the tokens are rendered as text)
        {"pkg": "imperatives", "hdir": "imperatives", "overlays": {"destination": "destination/c20.go", "route": "route/c20.go", "pkg/mt-conf": "mtconf/c20.go"}, "specs": [
            spec("C14/admin-tokens/tokens<=4", "VerifC14AdminTokens", {"maxtokens": "4"}, allow_no_ok=True)]},
        {"pkg": "imperatives", "hdir": "imperatives", "overlays": {"destination": "destination/c20.go", "route": "route/c20.go", "pkg/mt-conf": "mtconf/c20.go"}, "specs": [
            spec("C14/admin-tokens/backends/tokens<=4", "VerifC14AdminTokens", {"maxtokens": "4", "cmds": "backends"}, allow_no_ok=True)]},
        {"pkg": "table", "hdir": "table", "specs": [spec("C14/admin/view", "VerifC14View")]},
        {"pkg": "telnet", "hdir": "telnet", "specs": [spec("C14/admin/connection-handler", "VerifC14AdminConn")]},
        {"pkg": "rewriter", "hdir": "rewriter", "specs": [spec("C14/params/rewriter", "VerifC14RewriterNew", allow_no_assert=True)]},
        {"pkg": "route", "hdir": "route", "specs": [spec("C14/params/hashring-emptied", "VerifC14HashRingEmptied", allow_no_assert=True),
                                                     spec("C14/params/grafananet", "VerifC14GrafanaNetParams", allow_no_assert=True)]},
        # byte streams on the inputs (harnesses shared with C12 / C13: any reachable panic is a C14 violation)
        {"pkg": "input", "hdir": "input", "specs": [
            spec("C14/input/pickle/2-frames", "VerifC13Framing", {"reader": "cut1", "frames": "2", "first": "0"}),
            spec("C14/input/pickle/item-shapes", "VerifC13Items", {"items": "2"}, tier="thorough"),
            spec("C14/input/plain/L<=4", "VerifC12Plain", {"L": "4", "zeros": "0"}),
        ]},
    ],
}
