# C20 — configuration means what the documentation says, in both syntaxes (exec'd by obligations.py)

_C20_OVERLAYS = {
    # harness files overlaid into packages the package under test imports (gosym -hdir2 / go test -overlay)
    "destination": "destination/c20.go",   # VerifDestFields accessor + the destination spec table
    "route": "route/c20.go",               # Go models: getSchemas, NewGrafanaNet (verifStubFunc)
    "pkg/mt-conf": "mtconf/c20.go",        # Go model: ReadAggregations
}

PROPS["C20"] = {
    "bounds": ("interpolation: every byte string of 0..6 bytes (thorough 0..8) without a documented reference; documented references "
               "between 0..2 arbitrary '$'-free bytes on each side; 15 concrete documented examples. "
               "destination options: 0..2 (thorough 0..3) occurrences out of the 18 documented options in any order incl. repeats, "
               "numeric values = every 1- and 3-digit string (thorough 1,2,3,7 digits), booleans both values, 6 concrete words for string options; "
               "all 18 options at once in each of the 18 rotations plus one repeat; consistent-hashing destinations with one option; "
               "addRoute commands with 2 destinations x 0..1 option each x 2 route option sets (thorough: 4 sets x 2 route types). "
               "sections: blacklist (6 methods, expression 1..3 printable bytes incl. spaces), aggregation (10 functions, every 0/1-byte combination of the 5 literal "
               "matcher options incl. sub/substr, cache/dropRaw/interval/wait symbolic), rewriter (old 1..2, new/not 0..2 symbolic bytes, max -1..1000, regex forms concrete), "
               "carbon routes (3 types, sub/substr 0..1 symbolic bytes, 2-3 destinations with symbolic-digit options), grafanaNet (12 presence masks of the 8 numeric "
               "options with symbolic values, 5 boolean/metadata patterns with 3 casings); section == command for blacklist, aggregation, rewriter, carbon and grafanaNet routes on concrete "
               "strings with symbolic-digit numbers; one whole configuration (init command, blacklist line, aggregation, rewriter, carbon route) through InitTable, with any one of the five parts broken or none"),
    "outside": ("decoding of TOML text into cfg.Config and toml.MetaData by BurntSushi/toml (key spelling/casing: the decoded value is the harness input); "
                "toki lexing of symbolic text (command strings are concrete except for the digits of numeric values); "
                "route.NewGrafanaNet, getSchemas and ReadAggregations (files, HTTP workers): the check stops at the route.GrafanaNetConfig object (Go models in harness/route/c20.go, harness/mtconf/c20.go; "
                "the native replay runs the real functions); kafkaMdm / pubsub / cloudWatch routes; the top-level settings of the file (listen_addr, ...)"),
    "assumptions": [
        "oracle = the tables of docs/config.md and docs/tcp-admin-interface.md as transcribed in harness/destination/c20.go (VerifC20DestDefaults/VerifC20DestSet), harness/cfg/c20.go (c20GrafanaNetDefaults) and DESIGN.md appendix D",
        "documented interpolation variables: ${HOST}/$HOST, ${GRAFANA_NET_ADDR}, ${GRAFANA_NET_API_KEY}, ${GRAFANA_NET_USER_ID} (and their unbraced forms); os.Hostname/os.Getenv/os.Setenv are engine models",
        "os.isShellSpecialVar / os.isAlphaNum are modelled as single Boolean terms (exact transcriptions); os.Expand and getShellName run from their SSA",
        "regexp.Find on a subject with symbolic digit bytes: one native run with the digits replaced by '0', used only for digit-uniform patterns (every rune instruction accepts all or none of 0-9); all token patterns of imperatives.go are digit-uniform",
        "aggregation interval >= 1 (interval 0 crashes the ticker goroutine: a different property)",
        "interpolation is driven through the real readConfigFile on a file of the in-memory FS model (os.Create/WriteString/Close, ioutil.ReadFile); package main's flag definitions are modelled (flag.String/Int/Bool return a pointer to the default)",
        "destinations started by a route (Run, spool) only become runnable goroutines in the engine; nothing is sent",
    ],
    "groups": [
        {"pkg": "cmd/carbon-relay-ng", "hdir": "cmd", "specs": [
            spec("C20/expand/identity<=5", "VerifC20ExpandIdentity", {"maxlen": "xxxxx"}),
            spec("C20/expand/identity<=6", "VerifC20ExpandIdentity", {"maxlen": "xxxxxx"}, tier="thorough"),
            spec("C20/expand/identity<=8", "VerifC20ExpandIdentity", {"maxlen": "xxxxxxxx"}, tier="thorough"),
            spec("C20/expand/substitution", "VerifC20ExpandSubst"),
            spec("C20/expand/examples", "VerifC20ExpandExamples"),
        ]},
        {"pkg": "imperatives", "hdir": "imperatives", "overlays": _C20_OVERLAYS, "specs": [
            spec("C20/dest/options<=1", "VerifC20DestOptions", {"maxopts": "x", "vlens": "1,3"}),
            spec("C20/dest/options<=2", "VerifC20DestOptions", {"maxopts": "xx", "vlens": "1,3"}, tier="thorough"),
            spec("C20/dest/options<=3", "VerifC20DestOptions", {"maxopts": "xxx", "vlens": "2"}, tier="thorough"),
            spec("C20/dest/options<=2/digits=1,2,3,7", "VerifC20DestOptions", {"maxopts": "xx", "vlens": "1,2,3,7"}, tier="thorough"),
            spec("C20/dest/all-options", "VerifC20DestAll", tier="thorough"),
            spec("C20/dest/all-options-full", "VerifC20DestAll", {"full": "1"}, tier="thorough"),
            spec("C20/dest/no-matcher", "VerifC20DestNoMatcher", {"vlens": "1,3"}),
            spec("C20/dest/doc-examples", "VerifC20DocExamples"),
        ]},
        {"pkg": "imperatives", "hdir": "imperatives", "overlays": _C20_OVERLAYS, "specs": [
            spec("C20/dest/addRoute", "VerifC20AddRoute", {"vlens": "2"}, tier="thorough"),
            spec("C20/dest/addRoute-full", "VerifC20AddRoute", {"vlens": "1,3", "full": "1"}, tier="thorough"),
        ]},
        {"pkg": "cfg", "hdir": "cfg", "overlays": _C20_OVERLAYS, "specs": [
            spec("C20/section/blacklist", "VerifC20Blacklist"),
            spec("C20/equiv/blacklist", "VerifC20BlacklistEquiv"),
            spec("C20/section/aggregation", "VerifC20AggSection"),
            spec("C20/section/several-sections", "VerifC20Sections"),
            spec("C20/section/several-rewriters", "VerifC20RewriterSections"),
            spec("C20/equiv/aggregation", "VerifC20AggEquiv"),
            spec("C20/section/rewriter", "VerifC20RewriterSection"),
            spec("C20/equiv/rewriter", "VerifC20RewriterEquiv"),
            spec("C20/section/route", "VerifC20RouteSection"),
            spec("C20/equiv/route", "VerifC20RouteEquiv"),
            spec("C20/section/grafanaNet", "VerifC20GrafanaNetSection"),
            spec("C20/equiv/grafanaNet", "VerifC20GrafanaNetEquiv"),
            spec("C20/section/init-cmds", "VerifC20InitCmds"),
            spec("C20/section/whole-config", "VerifC20WholeConfig"),
        ]},
    ],
}
