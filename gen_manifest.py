#!/usr/bin/env python3
"""Regenerates MANIFEST.json from obligations.py (run after adding/removing a property check)."""
import json, os, sys
ROOT = os.path.dirname(os.path.abspath(__file__))
sys.path.insert(0, ROOT)
import obligations as OB

props = [json.loads(l) for l in open(os.path.join(ROOT, "properties.jsonl"))]
checks, na = [], []
for p in props:
    pid = p["id"]
    P = OB.PROPS.get(pid)
    if P and not P.get("disabled"):
        checks.append({
            "property_id": pid,
            "quick_cmd": "./check %s --tier quick" % pid,
            "thorough_cmd": "./check %s --tier thorough" % pid,
            "evidence_file": "evidence/%s.json" % pid,
            "replay_cmd_template": "./check %s --replay {path}" % pid,
            "engine": "gosym",
            "level_claimed": {
                "category": "model_checking",
                "text": P.get("level_text", "Bounded symbolic execution of the real functions (go/ssa of /repo's working tree) with an SMT solver deciding every assertion over all values of the symbolic inputs within the stated bounds; counterexamples are replayed natively against the real build."),
                "design_ref": "DESIGN.md section 2, " + pid,
            },
            "level_note": "Bounds: %s. Outside the claim: %s. Trusted base: the gosym executor and its intrinsics/stubs (listed per run in the evidence file), z3 5.1.0 (z3-new on PATH; cvc5 1.0 for the floating-point and modulo obligations of C10)." % (P.get("bounds", ""), P.get("outside", "")),
            "technique": P.get("technique", "solver-based bounded symbolic execution of the Go SSA (gosym + z3), native replay of counterexamples"),
        })
    else:
        na.append({"property_id": pid, "reason": OB.NOT_APPLICABLE.get(pid, "check not built yet (work in progress)")})
m = {
    "version": 1,
    "setup_cmd": "cd /verif/engine && GOFLAGS=-mod=mod GOPROXY=off GOSUMDB=off GOTOOLCHAIN=local go build -o /verif/bin/gosym . && mkdir -p /verif/work /verif/replay /verif/evidence",
    "hooks": {"guard": "verif", "enable": "harness files and the runtime are injected as overlay files /repo/<pkg>/zz_verif_*.go with build tag verif (go/packages Overlay for the engine, go test -overlay for native replay)",
              "baseline_off_cmd": "cd /repo && go test -vet=off -count=1 ./...", "source_commits": OB.HOOK_COMMITS, "add_only": True},
    "engines": [{"name": "gosym", "path": "engine", "serves_properties": [c["property_id"] for c in checks],
                 "kind_free_text": "own symbolic executor for Go SSA (x/tools v0.29.0) -> SMT-LIB2 (z3 -in, incremental), path-forking with re-execution, cooperative goroutine scheduler, regex as bounded NFA unrolling"}],
    "checks": checks,
    "notes": "exit codes of ./check: 0 held, 1 violation (VIOLATION line), 2 inconclusive/broken (never reported as held). known_findings.txt lists fixed/known findings.",
    "not_applicable": na,
}
json.dump(m, open(os.path.join(ROOT, "MANIFEST.json"), "w"), indent=1)
print("checks:", [c["property_id"] for c in checks], "na:", len(na))
