# C13: pickle input (harness/input/c13.go, engine/intrinsics_ogrek.go)
def _c13(id, harness, params=None, tier="quick", **kw):
    return spec("C13/" + id, harness, params, tier=tier, **kw)

PROPS["C13"] = {
    "bounds": "framing: 1..2 frames per connection, each a 4-byte big-endian length (symbolic, constrained to the class: = payload length / > 500 MiB / <= 500 MiB with a bad prefix / payload length+1..2 / truncated to 1..3 bytes / 0 / a well-formed list pickle in the MARK..LIST layout that checkProtocol does not accept) and a payload of 6..25 bytes (a list of 1..2 integers with symbolic content, or one valid item with a symbolic name, in each of the 4 pickle layouts checkProtocol accepts), read through a reader stub that delivers the stream in <= 3 segments with both cut positions arbitrary (1 frame) / <= 2 segments with the cut arbitrary (2 frames) / one byte per Read (2 frames), last bytes optionally together with io.EOF; thorough: 2 frames x 2 arbitrary cuts, and 1 frame of every kind except the 18..29-byte valid-item frame (i.e. streams of 4..10 bytes) under the full segmentation stub of C12 (every Read a solver-chosen count, EOF or timeout error); one concrete-length run with two 4.2 KB frames (payload > the 4096-byte read chunk) over 14x14 cut positions; two connections on one handler (as the listener runs them): A's one-item frame cut at 6 positions, B's whole two-item frame delivered in between, 4 pickle layouts, symbolic one-byte names. item handling: the decoder result is an arbitrary structure: a list of 1..2 items (thorough 3), one item ranging over all shapes over {Tuple, list, string, int64, float64, *big.Int, None, bool, dict} to depth 3 (item not a sequence; length 0/1/3; name of every non-string type; data not a sequence; data length 0/1/3; nested sequences as data elements; every pair of timestamp/value types incl. the 5 non-scalar types; all 4 tuple/list combinations), the other items from 4 neighbour shapes; strings symbolic (0..2 bytes); formatting with concrete numbers: 10 int64 (0, 255/256, 2^31, 2^40, negative, MinInt64), 9 float64 (rounding cases of %.0f, 1e21, +Inf), 2^64+1 as long timestamp, all 4x3 type pairs",
    "outside": "agreement with CPython's pickle encoder (protocols 0-4) and the correctness of the third-party og-rek decoder are outside the claim: in the engine (*ogórek.Decoder).Decode is replaced by a model that returns the structure the harness registered for exactly the bytes the decoder is handed (and an error for any other bytes); natively the replay runs the real og-rek on pickles produced by the harness's own small encoder. Go types og-rek never produces (uint8..uint64, int8..int32, float32, Go nil) are not generated. Observed while reading og-rek (not checked): BININT is decoded unsigned (a negative 32-bit int arrives as 2^32-n); the PROTO version check is dead code. Frames between 26 bytes and the chunk boundary run, lengths between payload+3 and 500 MiB with a good prefix (would need a stream of that size), more than 2 frames per connection, liveness (Peek blocks until 3 bytes of the next frame arrive)",
    "assumptions": [
        "og-rek maps Python list -> []interface{}, tuple -> ogórek.Tuple, str/unicode -> string, int -> int64, long -> *big.Int, float -> float64, None -> ogórek.None, bool -> bool, dict -> map[interface{}]interface{} (its documented types); Decode on empty input returns io.EOF and on a truncated pickle io.ErrUnexpectedEOF (read off og-rek's source)",
        "io.Reader contract for the connection as in C12",
        "expected text of numbers is written down literally in the harness tables (not computed with fmt), strings must appear verbatim",
    ],
    "groups": [
        {"pkg": "input", "hdir": "input", "specs": [
            _c13("items/shapes/items<=2", "VerifC13Items", {"items": "2"}),
            _c13("items/format", "VerifC13Format"),
            _c13("items/top-level-not-a-list", "VerifC13TopLevel"),
            _c13("framing/chunked-4200", "VerifC13Chunked"),
        ]},
        {"pkg": "input", "hdir": "input", "specs": [
            _c13("framing/1-frame/2-cuts/valid-item", "VerifC13Framing", {"reader": "cuts", "frames": "1", "last": "1", "styles": "02"}),
        ]},
        {"pkg": "input", "hdir": "input", "specs": [
            _c13("framing/1-frame/2-cuts/other-kinds", "VerifC13Framing", {"reader": "cuts", "frames": "1", "last": "0724563"}),
            _c13("framing/2-frames/bytewise", "VerifC13Framing", {"reader": "bytewise", "frames": "2"}),
        ]},
        {"pkg": "input", "hdir": "input", "specs": [
            _c13("framing/2-frames/1-cut/first=ints", "VerifC13Framing", {"reader": "cut1", "frames": "2", "first": "0"}),
        ]},
        {"pkg": "input", "hdir": "input", "specs": [
            _c13("framing/2-frames/1-cut/first=valid-item", "VerifC13Framing", {"reader": "cut1", "frames": "2", "first": "1", "first-styles": "2"}),
        ]},
        {"pkg": "input", "hdir": "input", "specs": [
            _c13("items/long-value", "VerifC13LongValue"),
            _c13("framing/truncated-pickle", "VerifC13TruncatedPickle"),
            _c13("two-connections-one-handler", "VerifC13TwoConnections"),
        ]},
        {"pkg": "input", "hdir": "input", "specs": [
            _c13("items/shapes/items<=3", "VerifC13Items", {"items": "3"}, tier="thorough"),
        ]},
        {"pkg": "input", "hdir": "input", "specs": [
            _c13("framing/1-frame/2-cuts/valid-item/all-layouts", "VerifC13Framing", {"reader": "cuts", "frames": "1", "last": "1"}, tier="thorough"),
            _c13("framing/2-frames/2-cuts", "VerifC13Framing", {"reader": "cuts", "frames": "2", "last": "0172456", "first-styles": "02"}, tier="thorough"),
        ], "opts": {"thorough": {"budget_s": 6000}}},
        {"pkg": "input", "hdir": "input", "specs": [
            _c13("framing/1-frame/full-segmentation", "VerifC13Framing", {"reader": "seg", "frames": "1", "zeros": "0", "last": "0724563"}, tier="thorough"),
        ], "opts": {"thorough": {"budget_s": 6000}}},
    ],
}
