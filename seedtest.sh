#!/bin/bash
# seedtest.sh <property id> [suffix]: verifies a seeded change produced in /tmp/mut-<id>[suffix] and runs the check against it.
# Everything happens in scratch worktrees; /repo is never touched.
set -u
ID=$1; SFX=${2:-}
export GOFLAGS=-mod=mod GOPROXY=off GOSUMDB=off GOTOOLCHAIN=local
M=/tmp/mut-$ID$SFX
V=/tmp/ver-$ID$SFX
OUT=/verif/seeded/$ID$SFX
[ -f $M/.mutant/patch.diff ] || { echo "no $M/.mutant/patch.diff"; exit 2; }
mkdir -p $OUT
# the demonstration file: untracked *_test.go in the mutant worktree
DEMO=$(git -C $M status --porcelain | awk '$1=="??" && $2 ~ /_test\.go$/ {print $2}' | head -1)
[ -n "$DEMO" ] || { echo "no demo test found"; exit 2; }
git -C /repo worktree remove --force $V 2>/dev/null
git -C /repo worktree add -q $V HEAD || exit 2
cp $M/$DEMO $V/$DEMO
PKG=./$(dirname $DEMO)
echo "== demo on unchanged code (must pass)"
(cd $V && timeout 300 go test -vet=off -count=1 $PKG 2>&1 | tail -3); R0=${PIPESTATUS[0]}
(cd $V && timeout 300 go test -vet=off -count=1 $PKG >/dev/null 2>&1); R0=$?
echo "== apply patch"
(cd $V && git apply $M/.mutant/patch.diff) || { echo "patch does not apply"; exit 2; }
echo "== demo with the change (must fail)"
(cd $V && timeout 300 go test -vet=off -count=1 $PKG >/tmp/seed-$ID.demo 2>&1); R1=$?
tail -5 /tmp/seed-$ID.demo
echo "== existing suite with the change (must pass)"
rm $V/$DEMO
(cd $V && go build ./... && timeout 900 go test -vet=off -count=1 ./... 2>&1 | grep -v "no test files" | grep -v "^ok" ); (cd $V && timeout 900 go test -vet=off -count=1 ./... >/dev/null 2>&1); R2=$?
echo "demo_unchanged_rc=$R0 demo_changed_rc=$R1 suite_changed_rc=$R2"
echo "== check against the change"
(cd /verif && VERIF_REPO=$V timeout 3000 ./check $ID > /tmp/seed-$ID.check 2>&1); RC=$?
grep "VIOLATION\|KNOWN\|INCONCLUSIVE\|BROKEN\|tier=" /tmp/seed-$ID.check | head -12
# a change can surface through the check of a neighbouring property: EXTRA="C03 C12" runs those too
EXTRA_RES=""
for X in ${EXTRA:-}; do
  (cd /verif && VERIF_REPO=$V timeout 3000 ./check $X > /tmp/seed-$ID.check.$X 2>&1); XR=$?
  grep "VIOLATION\|tier=" /tmp/seed-$ID.check.$X | head -4
  EXTRA_RES="$EXTRA_RES $X:rc=$XR:$(grep -m1 '^#   ' /tmp/seed-$ID.check.$X | cut -c5-120 | tr '"' ' ')"
  rm -f /tmp/seed-$ID.check.$X
done
cp $M/.mutant/patch.diff $OUT/patch.diff
cp $M/$DEMO $OUT/demo_test.go
cp $M/.mutant/README.md $OUT/README.md 2>/dev/null
python3 - <<PY
import json
json.dump({"property":"$ID","demo_file":"$DEMO","demo_unchanged_rc":$R0,"demo_changed_rc":$R1,"suite_with_change_rc":$R2,
 "check_cmd":"VERIF_REPO=<worktree with patch> ./check $ID","check_rc":$RC,
 "check_output":[l.rstrip() for l in open("/tmp/seed-$ID.check") if l.startswith(("VIOLATION","#   ","INCONCLUSIVE","BROKEN","$ID tier"))][:20],
 "other_checks": "$EXTRA_RES".split("  ") if "$EXTRA_RES".strip() else [],
 "valid": ($R0==0 and $R1!=0 and $R2==0), "detected": ($RC==1 and any(l.startswith("VIOLATION") for l in open("/tmp/seed-$ID.check"))) or ":rc=1:" in "$EXTRA_RES"}, open("$OUT/meta.json","w"), indent=1)
PY
git -C /repo worktree remove --force $V
rm -f /tmp/seed-$ID.demo /tmp/seed-$ID.check
echo "check_rc=$RC  -> $OUT/meta.json"
